"""Generators of point sets / likelihood landscapes and of bounds of every class.

Shared by the bound-level monitors (C07 soundness, C08 uniformity and volume, C09 round trip).
Everything is a deterministic function of the numpy Generator passed in.
"""
import numpy as np
from scipy.special import logsumexp

SHAPES = ['gauss', 'multi', 'elongated', 'parabola', 'ring', 'corner', 'wrapped', 'face', 'blobs', 'core_halo', 'free_dims']
NN_KW = {'hidden_layer_sizes': (16, 8)}


def _circ(x):
    x = np.abs(x)
    return np.minimum(x, 1 - x)


def problem(rng, shape, d, n_bg=3000, n_shape=800, n_live=None):
    """Points in [0,1)^d with a log-likelihood whose top `n_live` points form `shape`."""
    periodic = None
    if shape == 'gauss':
        c = rng.uniform(0.3, 0.7, d)
        s = rng.uniform(0.03, 0.12, d)
        f = lambda x: -0.5 * np.sum(((x - c) / s) ** 2, axis=-1)
        draw = c + s * rng.normal(size=(n_shape, d))
    elif shape == 'multi':
        k = int(rng.integers(2, 5))
        cs = rng.uniform(0.15, 0.85, (k, d))
        ss = rng.uniform(0.02, 0.06, (k, d))
        f = lambda x: logsumexp([-0.5 * np.sum(((x - cs[j]) / ss[j]) ** 2, axis=-1) for j in range(k)], axis=0)
        draw = np.vstack([cs[j] + ss[j] * rng.normal(size=(n_shape // k, d)) for j in range(k)])
    elif shape == 'blobs':     # clusters a few sigma apart: member ellipsoids overlap after splitting
        k = int(rng.integers(2, 6))
        s0 = rng.uniform(0.03, 0.06)
        c0 = rng.uniform(0.35, 0.65, d)
        cs = c0 + s0 * rng.uniform(2.0, 4.0) * rng.normal(size=(k, d)) / np.sqrt(d)
        ss = s0 * rng.uniform(0.6, 1.4, (k, d))
        f = lambda x: logsumexp([-0.5 * np.sum(((x - cs[j]) / ss[j]) ** 2, axis=-1) for j in range(k)], axis=0)
        draw = np.vstack([cs[j] + ss[j] * rng.normal(size=(n_shape // k, d)) for j in range(k)])
    elif shape == 'core_halo':   # a tight dense core plus a broad, sparse halo: the halo ellipsoid is what trim() drops
        c = rng.uniform(0.4, 0.6, d)
        c2 = c + rng.uniform(-0.1, 0.1, d)
        s1, s2 = rng.uniform(0.008, 0.02), rng.uniform(0.15, 0.25)
        lw = np.log(rng.uniform(0.02, 0.15))
        f = lambda x: np.logaddexp(-0.5 * np.sum(((x - c) / s1) ** 2, axis=-1),
                                   -0.5 * np.sum(((x - c2) / s2) ** 2, axis=-1) + lw - d * np.log(s2 / s1))
        k1 = int(0.85 * n_shape)
        draw = np.vstack([c + s1 * rng.normal(size=(k1, d)), c2 + s2 * rng.normal(size=(n_shape - k1, d))])
    elif shape == 'free_dims':   # only the first two parameters are constrained: the members become genuine cube-ellipsoid mixtures
        c = rng.uniform(0.3, 0.7, d)
        s0 = rng.uniform(0.03, 0.08, d)
        nc = min(2, d - 1) if d > 1 else 1
        f = lambda x: -0.5 * np.sum(((x[..., :nc] - c[:nc]) / s0[:nc]) ** 2, axis=-1)
        draw = rng.random((n_shape, d))
        draw[:, :nc] = c[:nc] + s0[:nc] * rng.normal(size=(n_shape, nc))
    elif shape == 'elongated':
        c = rng.uniform(0.4, 0.6, d)
        q, _ = np.linalg.qr(rng.normal(size=(d, d)))
        cond = 10.0 ** rng.uniform(2, 6)
        ev = 0.2 * np.logspace(0, -0.5 * np.log10(cond), d)      # std devs; cond of covariance = cond
        L = q * ev
        Linv = np.linalg.inv(L)
        f = lambda x: -0.5 * np.sum(((x - c) @ Linv.T) ** 2, axis=-1)
        draw = c + rng.normal(size=(n_shape, d)) @ L.T
    elif shape == 'parabola':
        a = rng.uniform(1.0, 3.0)
        s = rng.uniform(0.01, 0.04)
        w = rng.uniform(0.15, 0.3)

        def f(x):
            r = -0.5 * ((x[..., 1] - 0.2 - a * (x[..., 0] - 0.5) ** 2) / s) ** 2 - 0.5 * ((x[..., 0] - 0.5) / w) ** 2
            return r - 0.5 * np.sum(((x[..., 2:] - 0.5) / 0.1) ** 2, axis=-1)
        x0 = 0.5 + w * rng.normal(size=n_shape)
        draw = np.column_stack([x0, 0.2 + a * (x0 - 0.5) ** 2 + s * rng.normal(size=n_shape)] +
                               [0.5 + 0.1 * rng.normal(size=n_shape) for _ in range(d - 2)])
    elif shape == 'ring':
        c = np.full(d, 0.5)
        r0 = rng.uniform(0.2, 0.35)
        s = rng.uniform(0.01, 0.03)
        f = lambda x: -0.5 * ((np.sqrt(np.sum((x - c) ** 2, axis=-1)) - r0) / s) ** 2
        v = rng.normal(size=(n_shape, d))
        v /= np.linalg.norm(v, axis=1)[:, None]
        draw = c + v * (r0 + s * rng.normal(size=(n_shape, 1)))
    elif shape in ('corner', 'face'):
        c = rng.uniform(0.3, 0.7, d)
        hug = rng.random(d) < (0.9 if shape == 'corner' else 0.35)
        if not np.any(hug):
            hug[int(rng.integers(d))] = True
        c[hug] = rng.choice([0.0, 1.0, 0.003, 0.997], int(np.sum(hug)))
        s = rng.uniform(0.03, 0.1, d)
        f = lambda x: -0.5 * np.sum(((x - c) / s) ** 2, axis=-1)
        draw = c + s * rng.normal(size=(4 * n_shape, d))
    else:  # wrapped around the periodic boundary
        n_per = int(rng.integers(1, d + 1))
        periodic = rng.choice(d, n_per, replace=False)     # any order
        c = rng.uniform(0.3, 0.7, d)
        c[periodic] = rng.choice([0.0, 0.01, 0.99, 0.5, 0.25], n_per)
        s = rng.uniform(0.03, 0.1, d)

        def f(x):
            dx = x - c
            dx[..., periodic] = _circ(dx[..., periodic])
            return -0.5 * np.sum((dx / s) ** 2, axis=-1)
        draw = c + s * rng.normal(size=(n_shape, d))
        draw[:, periodic] = draw[:, periodic] % 1
    draw = draw[np.all((draw >= 0) & (draw < 1), axis=1)]
    pts = np.vstack([rng.random((n_bg, d)), draw])
    rng.shuffle(pts)
    log_l = f(pts.copy())
    if n_live is None:
        n_live = int(rng.integers(120, 400))
    n_live = min(n_live, len(pts) // 3)
    log_l_min = np.sort(log_l)[-n_live]
    return dict(points=pts, log_l=log_l, log_l_min=float(log_l_min), periodic=periodic, shape=shape,
                d=d, n_live=int(np.sum(log_l >= log_l_min)))


def live(prob):
    return prob['points'][prob['log_l'] >= prob['log_l_min']]


def build(kind, prob, opts, rng, pool=None):
    """Build a bound of class `kind` from the problem. Returns (bound, construction_points|None)."""
    from nautilus.bounds import (UnitCube, Ellipsoid, UnitCubeEllipsoidMixture, Union, NeuralBound,
                                 NautilusBound)
    e = opts.get('enlarge_per_dim', 1.1)
    pts = live(prob)
    if kind == 'UnitCube':
        return UnitCube.compute(prob['d'], rng=rng), None
    if kind == 'Ellipsoid':
        return Ellipsoid.compute(pts, enlarge_per_dim=e, rng=rng), pts
    if kind == 'UnitCubeEllipsoidMixture':
        return UnitCubeEllipsoidMixture.compute(pts, enlarge_per_dim=e, rng=rng), pts
    if kind == 'Union':
        cls = Ellipsoid if opts.get('bound_class', 'Ellipsoid') == 'Ellipsoid' else UnitCubeEllipsoidMixture
        b = Union.compute(pts, enlarge_per_dim=e, n_points_min=opts.get('n_points_min'),
                          unit=opts.get('unit', True), bound_class=cls, rng=rng)
        return b, pts
    if kind == 'NeuralBound':
        b = NeuralBound.compute(prob['points'], prob['log_l'], prob['log_l_min'], enlarge_per_dim=e,
                                n_networks=opts.get('n_networks', 1), neural_network_kwargs=dict(opts.get('nn_kwargs') or NN_KW),
                                pool=pool, rng=rng)
        return b, pts
    if kind == 'NautilusBound':
        per = prob['periodic'] if opts.get('periodic', True) else None
        b = NautilusBound.compute(prob['points'], prob['log_l'], prob['log_l_min'],
                                  opts.get('log_v_target', np.log(prob['n_live'] / len(prob['points']))),
                                  enlarge_per_dim=e, n_points_min=opts.get('n_points_min'),
                                  split_threshold=opts.get('split_threshold', 100), periodic=per,
                                  n_networks=opts.get('n_networks', 0), neural_network_kwargs=dict(opts.get('nn_kwargs') or NN_KW),
                                  pool=pool, rng=rng)
        return b, pts
    raise ValueError(kind)


def clone_rng(rng):
    r = np.random.default_rng()
    r.bit_generator.state = rng.bit_generator.state
    return r
