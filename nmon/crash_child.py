"""Child of the C06 crash monitor: a small checkpointed run whose checkpoint writes are bracketed by
BEGIN/END lines in a side log (unbuffered O_APPEND) and whose completed states are copied aside.

  python -m nmon.crash_child spec.json ckpt.hdf5 side.log statedir
"""
import json
import os
import shutil
import sys
import warnings


def main():
    spec_path, ckpt, side, statedir = sys.argv[1:5]
    from . import env
    env.use_repo()
    import numpy as np
    import nautilus.sampler as ns
    from . import workloads
    warnings.simplefilter('ignore')
    spec = json.load(open(spec_path))
    fd = os.open(side, os.O_WRONLY | os.O_APPEND | os.O_CREAT, 0o644)
    counter = [0]

    def log(line):
        os.write(fd, (line + '\n').encode())

    def wrap(name, kind):
        orig = getattr(ns.Sampler, name)

        def f(self, *a, **kw):
            counter[0] += 1
            j = counter[0]
            log('BEGIN %d %s' % (j, kind))
            r = orig(self, *a, **kw)
            st = self.rng.bit_generator.state['state']['state']
            log('END %d %s %d %d %d' % (j, kind, int(self.n_like), int(self.explored), st))
            shutil.copyfile(ckpt, os.path.join(statedir, 'state-%d.hdf5' % j))
            return r
        setattr(ns.Sampler, name, f)
    wrap('write', 'write')
    wrap('write_shell_update', 'update')
    prob = workloads.Problem(spec['prob'])
    s = workloads.make_sampler(prob, spec['cfg'], filepath=ckpt, resume=True)
    log('START %d' % int(s.n_like))
    with np.errstate(all='ignore'):
        ok = s.run(**workloads.run_kwargs(spec['cfg'], n_like_max=spec['cap']))
    log('DONE %d %d' % (int(ok), int(s.n_like)))
    return 0


if __name__ == '__main__':
    sys.exit(main())
