"""History interpreter: drives a real Sampler through a scripted history with monitors attached."""
import os
import shutil
import traceback
import warnings

import numpy as np

from . import workloads
from .instrument import Hooks, VirtualClock
from .workloads import BudgetExceeded, InjectedFault, Problem

ACCESSORS = ['log_z', 'n_eff', 'eta', 'f_live', 'log_v_live', 'posterior', 'posterior_blobs', 'evidence',
             'effective_sample_size', 'asymptotic_sampling_efficiency', 'shell_bound_occupation',
             'shell_association', 'discard_exploration']


def call_accessor(s, name, rng=None):
    with warnings.catch_warnings():
        warnings.simplefilter('ignore')
        with np.errstate(all='ignore'):
            if name in ('log_z', 'n_eff', 'eta', 'f_live', 'log_v_live', 'discard_exploration'):
                if name == 'log_v_live' and (len(s.bounds) == 0 or s.explored):
                    return None      # only meaningful (and only used) during exploration
                if name == 'eta' and len(s.bounds) == 0:
                    return None
                return getattr(s, name)
            if name == 'posterior':
                if sum(len(p) for p in s.points) == 0:
                    return None
                return s.posterior()
            if name == 'posterior_blobs':
                if s.blobs is None or sum(len(p) for p in s.points) == 0:
                    return None
                return s.posterior(return_blobs=True)
            if name in ('evidence', 'effective_sample_size', 'asymptotic_sampling_efficiency'):
                if len(s.bounds) == 0:
                    return None
                return getattr(s, name)()
            if name == 'shell_bound_occupation':
                if len(s.bounds) == 0:
                    return None
                return s.shell_bound_occupation(fractional=False)
            if name == 'shell_association':
                pts = (rng or np.random.default_rng(0)).random((50, s.n_dim))
                return s.shell_association(pts)
    raise ValueError(name)


def gen_history(rng, cfg, kind='mixed', allow_resume=True):
    """Scripted history. Ops:
      ['run_more', d]      run(n_like_max = n_like + d)
      ['run_abs', n]       run(n_like_max = n)
      ['run_timeout', t]   run(timeout = t units of the virtual clock)
      ['finish']           run() until success (bounded by the case's n_like cap)
      ['toggle']           flip discard_exploration
      ['access', [names]]  call read-only accessors
      ['resume']           new Sampler object from the checkpoint file (only with a file)
      ['fault', k]         the k-th next likelihood evaluation raises (injected fault), then continue
    """
    nb = cfg['n_batch']
    hist = []
    n_ops = int(rng.integers(4, 12))
    for _ in range(n_ops):
        r = rng.random()
        if r < 0.35:
            hist.append(['run_more', int(rng.choice([0, 1, nb - 1, nb, nb + 1, 2 * nb, 5 * nb, 12 * nb, 40 * nb]))])
        elif r < 0.42:
            hist.append(['run_abs', int(rng.choice([0, nb, 3 * nb, 10 * nb]))])
        elif r < 0.52:
            hist.append(['run_timeout', float(rng.choice([0, 1, 2, 5, 7.5]))])
        elif r < 0.64:
            hist.append(['toggle'])
        elif r < 0.76:
            hist.append(['access', [str(a) for a in rng.choice(ACCESSORS, int(rng.integers(1, 5)))]])
        elif r < 0.90 and allow_resume and cfg['filepath']:
            hist.append(['resume'])
        else:
            hist.append(['run_more', int(rng.choice([nb, 7 * nb, 25 * nb]))])
    hist.append(['finish'])
    if rng.random() < 0.6:
        hist += [['toggle'], ['run_more', int(3 * nb)], ['toggle']]
    if allow_resume and cfg['filepath'] and rng.random() < 0.6:
        hist += [['resume'], ['run_more', int(2 * nb)]]
    if kind == 'mixed' and rng.random() < 0.5:
        # injected fault: the likelihood raises in the middle of a batch of one of the run() calls.
        # The sampler object is abandoned afterwards (as a user would); with a checkpoint file the
        # history continues from a resumed sampler.
        runs = [j for j, op in enumerate(hist) if op[0] in ('run_more', 'finish') and (op[0] == 'finish' or op[1] > nb)]
        if runs:
            j = int(rng.choice(runs))
            k = int(rng.integers(1, (30 * nb if hist[j][0] == 'finish' else hist[j][1]) + 1))
            hist = hist[:j] + [['fault', k], hist[j]]
            if cfg['filepath']:
                hist += [['resume'], ['finish']]
    return hist


class Driver:
    def __init__(self, spec, monitors, scratch, budget=None, virtual_time=True, n_like_cap=None):
        self.spec = spec
        self.prob = Problem(spec['prob'])
        self.cfg = spec['cfg']
        self.monitors = monitors
        self.scratch = scratch
        self.path = os.path.join(scratch, 'ckpt.hdf5') if self.cfg.get('filepath') else None
        self.clock = VirtualClock() if virtual_time else None
        self.hooks = Hooks(monitors, proposal_budget=budget, clock=self.clock)
        self.s = None
        self.trace = []            # what actually happened, op by op
        nb = int(self.cfg['n_batch'])
        self.n_like_cap = n_like_cap or int(min(max(250 * nb, 2500), 30000))
        self.exc = None

    def _new_sampler(self, resume):
        if self.s is not None:
            workloads.close_sampler(self.s)
        self.s = workloads.make_sampler(self.prob, self.cfg, filepath=self.path, resume=resume)
        for m in self.monitors:
            m.driver = self
        return self.s

    def run_history(self, hist):
        """Returns 'ok' | 'skipped:<why>'. Exceptions of the code under test are recorded in
        self.exc (with the op) and re-raised to the caller as CodeRaised."""
        rng = np.random.default_rng(int(self.cfg['seed']) + 17)
        with self.hooks:
            try:
                s = self._new_sampler(resume=False)
                faulted = False
                for op in hist:
                    s = self.s
                    kind = op[0]
                    if faulted and kind != 'resume':
                        continue          # the faulted sampler object is abandoned
                    if kind == 'resume' and (self.path is None or not os.path.exists(self.path)):
                        continue
                    faulted = False
                    rec = {'op': op, 'n_like_before': int(s.n_like)}
                    if kind in ('run_more', 'run_abs', 'run_timeout', 'finish'):
                        kw = workloads.run_kwargs(self.cfg, discard_exploration=bool(s.discard_exploration)
                                                  if s.explored else self.cfg['discard_exploration'])
                        if kind == 'run_more':
                            kw['n_like_max'] = s.n_like + op[1]
                        elif kind == 'run_abs':
                            kw['n_like_max'] = op[1]
                        elif kind == 'run_timeout':
                            kw['timeout'] = op[1]
                            kw['n_like_max'] = self.n_like_cap
                        else:
                            kw['n_like_max'] = self.n_like_cap
                        if op[-1] == 'verbose':
                            kw['verbose'] = True
                        try:
                            rec['ret'] = bool(s.run(**kw))
                        except InjectedFault:
                            rec['ret'] = 'fault'
                        rec['kw'] = {k: (v if np.isfinite(v) else 'inf') if isinstance(v, float) else v
                                     for k, v in kw.items()}
                    elif kind == 'toggle':
                        s.discard_exploration = not s.discard_exploration
                        rec['now'] = bool(s.discard_exploration)
                    elif kind == 'access':
                        for name in op[1]:
                            call_accessor(s, name, rng)
                    elif kind == 'resume':
                        if self.path is None or not os.path.exists(self.path):
                            rec['skipped'] = True
                        else:
                            s = self._new_sampler(resume=True)
                            self.hooks.emit('on_resume', s)
                    elif kind == 'fault':
                        self.prob.fail_at = self.prob.n_calls + op[1]
                    else:
                        raise ValueError(op)
                    if rec.get('ret') == 'fault':
                        faulted = True
                    rec['n_like_after'] = int(self.s.n_like)
                    rec['explored'] = bool(self.s.explored)
                    self.trace.append(rec)
                    self.hooks.emit('on_quiescent', self.s, rec)
                return 'ok'
            except BudgetExceeded as e:
                return 'skipped:%s' % e
            finally:
                if self.s is not None:
                    workloads.close_sampler(self.s)


def copy_ckpt(path, dest):
    shutil.copyfile(path, dest)
    return dest


def describe_exc(e):
    tb = traceback.extract_tb(e.__traceback__)
    inner = [f for f in tb if '/nautilus/' in f.filename]
    f = inner[-1] if inner else tb[-1]
    return '%s: %s at %s:%s' % (type(e).__name__, str(e)[:200], f.filename.split('/')[-1], f.name)
