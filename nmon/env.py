"""Environment shared by all checks: which tree is under test, seeds, scratch space."""
import os
import shutil
import sys
import tempfile

VERIF = os.path.dirname(os.path.dirname(os.path.abspath(__file__)))
REPO = os.path.abspath(os.environ.get('NAUTILUS_VERIF_REPO', '/repo'))
PY = '/venv/bin/python'
JOBS = int(os.environ.get('NMON_JOBS', str(os.cpu_count() or 4)))


def child_env():
    env = dict(os.environ)
    env.update(
        PYTHONDONTWRITEBYTECODE='1', PYTHONHASHSEED='0',
        OMP_NUM_THREADS='1', OPENBLAS_NUM_THREADS='1', MKL_NUM_THREADS='1',
        NUMEXPR_NUM_THREADS='1', NAUTILUS_VERIF_REPO=REPO,
        PYTHONPATH=os.pathsep.join([REPO, VERIF]))
    return env


def use_repo():
    """Make `import nautilus` resolve to the tree under test; refuse otherwise."""
    if REPO in sys.path:
        sys.path.remove(REPO)
    sys.path.insert(0, REPO)
    import nautilus
    got = os.path.abspath(nautilus.__file__)
    if not got.startswith(REPO + os.sep):
        raise RuntimeError('wrong-repo-root: nautilus imported from %s, wanted %s'
                           % (got, REPO))
    return nautilus


def seed():
    return int(os.environ.get('VERIF_SEED', '0') or 0)


def tier(default='quick'):
    t = os.environ.get('VERIF_TIER', default) or default
    return t if t in ('quick', 'thorough') else default


def case_rng(prop, i, s=None):
    import numpy as np
    s = seed() if s is None else s
    return np.random.default_rng(np.random.SeedSequence([int(s), int(prop[1:]), int(i)]))


class Scratch:
    """Per-invocation scratch directory under /tmp, always removed."""

    def __init__(self, tag='nmon'):
        self.tag = tag
        self.path = None

    def __enter__(self):
        base = os.environ.get('NMON_TMP', tempfile.gettempdir())
        self.path = tempfile.mkdtemp(prefix=self.tag + '-', dir=base)
        return self.path

    def __exit__(self, *a):
        shutil.rmtree(self.path, ignore_errors=True)


def from_code_under_test(e):
    """True if exception e was raised by (or below) the tree under test rather than by the harness itself:
    some frame lies in REPO and the innermost frame does not lie in /verif. Harness errors must never be
    folded into 'skipped' or into a verdict."""
    import traceback
    frames = traceback.extract_tb(e.__traceback__)
    if not any(f.filename.startswith(REPO + os.sep) for f in frames):
        return False
    return not frames[-1].filename.startswith(VERIF + os.sep)
