"""Evidence writer with a built-in check of the parts of EVIDENCE.schema.json we use
(jsonschema is not installed beside the repository's interpreter)."""
import json
import os

from . import env

LEVELS = ('exploration', 'fault_enumeration', 'model_checking', 'proof',
          'translation_validation', 'other')


def validate(ev):
    errs = []
    for k in ('property_id', 'tier', 'seed', 'level', 'coverage', 'wall_s'):
        if k not in ev:
            errs.append('missing ' + k)
    if ev.get('tier') not in ('quick', 'thorough'):
        errs.append('tier')
    if not isinstance(ev.get('seed'), int):
        errs.append('seed')
    if ev.get('level') not in LEVELS:
        errs.append('level')
    cov = ev.get('coverage', {})
    if ev.get('level') in ('exploration', 'fault_enumeration'):
        if not (isinstance(cov.get('evaluations'), int) and cov['evaluations'] >= 1):
            errs.append('coverage.evaluations')
        if not (isinstance(cov.get('distinct_nontrivial'), int) and cov['distinct_nontrivial'] >= 2):
            errs.append('coverage.distinct_nontrivial')
        if not isinstance(cov.get('rule'), str):
            errs.append('coverage.rule')
        if not (isinstance(cov.get('samples'), list) and len(cov['samples']) >= 1):
            errs.append('coverage.samples')
    return errs


def write(prop, ev):
    d = os.path.join(env.VERIF, 'evidence')
    os.makedirs(d, exist_ok=True)
    path = os.path.join(d, prop + '.json')
    tmp = path + '.tmp'
    with open(tmp, 'w') as f:
        json.dump(ev, f, indent=1, default=str)
        f.write('\n')
    os.replace(tmp, path)
    return path
