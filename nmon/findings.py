"""KNOWN_FINDINGS.txt: `finding: property=<id> key=<mechanism> <text>` lines suppress a
violation whose oracle-computed mechanism key matches; `fixed:` lines suppress nothing.
The file is never written at run time."""
import os
import re

from . import env

PATH = os.path.join(env.VERIF, 'KNOWN_FINDINGS.txt')


def load(path=PATH):
    findings, fixed = [], []
    if not os.path.exists(path):
        return findings, fixed
    for line in open(path):
        line = line.strip()
        if not line or line.startswith('#'):
            continue
        m = re.match(r'finding:\s+property=(\S+)\s+key=(\S+)\s+(.*)$', line)
        if m:
            findings.append({'property': m.group(1), 'key': m.group(2), 'text': m.group(3)})
            continue
        m = re.match(r'fixed:\s+property=(\S+)\s+(\S+)\s+(.*)$', line)
        if m:
            fixed.append({'property': m.group(1), 'commit': m.group(2), 'text': m.group(3)})
    return findings, fixed


def match(prop, key, findings):
    for f in findings:
        if f['property'] == prop and f['key'] == key:
            return f
    return None
