"""Monitors attach here: wrappers on the real Sampler / bound classes dispatch events.

No source hooks: attributes of the real classes are wrapped before objects are used and
restored afterwards. `Sampler.run` reaches all wrapped methods through `self.` lookups, so no
reference bypasses a wrapper; every wrapper counts its invocations (Hooks.counts).
"""
import hashlib
import os
import time as _time

import numpy as np

from .workloads import BudgetExceeded


class VirtualClock:
    """Replaces nautilus.sampler.time: advances one unit per reading."""

    def __init__(self, spin_limit=200000):
        self.t = 0
        self.readings = []
        self.since_progress = 0
        self.spin_limit = spin_limit

    def __call__(self):
        v = self.t
        self.t += 1
        self.readings.append(v)
        # run() reads the clock once per loop iteration: a broken tree can make that loop spin without ever starting
        # a batch (e.g. a nan effective sample size satisfies no branch); turn that into an exception the driver
        # understands instead of a watchdog kill that loses what the monitors already saw
        self.since_progress += 1
        if self.since_progress > self.spin_limit:
            raise BudgetExceeded('run() read the clock %d times without starting a batch (spinning)' % self.since_progress)
        return float(v)


class Hooks:
    EVENTS = ('run_enter', 'run_exit', 'after_add_bound', 'before_add_samples', 'after_add_samples',
              'after_sample_shell', 'before_eval', 'after_eval', 'before_write', 'after_write',
              'after_toggle', 'on_resume', 'on_quiescent', 'pool_map')

    def __init__(self, monitors, proposal_budget=None, clock=None):
        self.monitors = list(monitors)
        for m in self.monitors:
            m.hooks = self          # monitors reach the captured proposals / counters through this, driver or not
        self.budget = proposal_budget
        self.clock = clock
        self.counts = {}
        self.handed_out = 0        # points returned by bound.sample() (UnitCube / NautilusBound)
        self.proposals = 0         # outer proposals drawn (budget)
        self._saved = []
        self._depth = 0
        self.capture = None
        self.capture_proposals = any(getattr(m, 'WANTS_PROPOSALS', False) for m in self.monitors)
        self.last_proposals = None
        self._member_draws = 0
        self._rounds = 0
        self._t_enter = _time.monotonic()
        self.case_seconds = int(os.environ.get('NMON_CASE_SECONDS', '420'))

    def _tick(self):
        """One top-level bound.sample() call. sample_shell loops until a batch is full; a broken tree can make every
        round come back empty, so that loop never ends although each round is cheap. Bound the number of rounds between
        two likelihood batches (a healthy shell needs n_batch/p rounds at worst, see the proposal budget)."""
        self._rounds += 1
        if self.budget is not None and self._rounds > 400000:
            raise BudgetExceeded('%d proposal rounds without completing a batch' % self._rounds)
        if self.budget is not None and self._rounds % 256 == 0 and _time.monotonic() - self._t_enter > self.case_seconds:
            # cooperative wall-clock guard: only ever turns a case into "skipped (too expensive)" - never a verdict -
            # and lets the violations the monitors already recorded be reported instead of being lost to the watchdog
            raise BudgetExceeded('case exceeded %d s of wall clock inside the sampling loop' % self.case_seconds)

    def emit(self, event, *a, **kw):
        self.counts[event] = self.counts.get(event, 0) + 1
        for m in self.monitors:
            f = getattr(m, 'on_' + event if not event.startswith('on_') else event, None)
            if f is not None:
                f(*a, **kw)

    def _patch(self, obj, name, new):
        self._saved.append((obj, name, obj.__dict__[name] if name in obj.__dict__ else getattr(obj, name)))
        setattr(obj, name, new)

    def __enter__(self):
        import nautilus.sampler as ns
        self._t_enter = _time.monotonic()
        from nautilus.bounds import UnitCube, NautilusBound, Union
        S = ns.Sampler
        hooks = self

        o_run = S.run

        def run(self, *a, **kw):
            hooks.emit('run_enter', self, kw)
            try:
                r = o_run(self, *a, **kw)
            except BaseException as e:
                hooks.emit('run_exit', self, kw, None, e)
                raise
            hooks.emit('run_exit', self, kw, r, None)
            return r
        self._patch(S, 'run', run)

        o_ab = S.add_bound

        def add_bound(self, *a, **kw):
            r = o_ab(self, *a, **kw)
            hooks.emit('after_add_bound', self, r)
            return r
        self._patch(S, 'add_bound', add_bound)

        o_as = S.add_samples

        def add_samples(self, shell, *a, **kw):
            hooks.emit('before_add_samples', self, shell)
            h0 = hooks.handed_out
            r = o_as(self, shell, *a, **kw)
            hooks.emit('after_add_samples', self, shell, r, hooks.handed_out - h0)
            return r
        self._patch(S, 'add_samples', add_samples)

        o_ss = S.sample_shell

        def sample_shell(self, index, *a, **kw):
            h0 = hooks.handed_out
            hooks.capture = [] if hooks.capture_proposals else None
            try:
                r = o_ss(self, index, *a, **kw)
            finally:
                cap, hooks.capture = hooks.capture, None
            hooks.last_proposals = np.vstack(cap) if cap else None
            hooks.emit('after_sample_shell', self, index, r, hooks.handed_out - h0)
            return r
        self._patch(S, 'sample_shell', sample_shell)

        o_ev = S.evaluate_likelihood

        def evaluate_likelihood(self, points):
            if hooks.clock is not None:
                hooks.clock.since_progress = 0
            hooks._rounds = 0
            hooks.emit('before_eval', self, points)
            n0 = self.n_like
            r = o_ev(self, points)
            hooks.emit('after_eval', self, points, r[0], r[1], n0)
            return r
        self._patch(S, 'evaluate_likelihood', evaluate_likelihood)

        o_w = S.write

        def write(self, filepath, *a, **kw):
            hooks.emit('before_write', self, 'write')
            r = o_w(self, filepath, *a, **kw)
            hooks.emit('after_write', self, 'write', filepath)
            return r
        self._patch(S, 'write', write)

        o_wu = S.write_shell_update

        def write_shell_update(self, filepath, shell):
            hooks.emit('before_write', self, 'update')
            r = o_wu(self, filepath, shell)
            hooks.emit('after_write', self, 'update', filepath)
            return r
        self._patch(S, 'write_shell_update', write_shell_update)

        o_prop = S.__dict__['discard_exploration']

        def setter(self, value):
            o_prop.fset(self, value)
            hooks.emit('after_toggle', self, value)
        self._patch(S, 'discard_exploration', property(o_prop.fget, setter, doc=o_prop.__doc__))

        o_ucs = UnitCube.sample

        def uc_sample(self, n_points=100, pool=None):
            r = o_ucs(self, n_points, pool=pool)
            if hooks._depth == 0:      # not the cube of a mixture member inside a NautilusBound
                hooks._tick()
                if hooks.capture is not None:
                    hooks.capture.append(np.array(r, copy=True))
                hooks.handed_out += len(r)
                hooks.proposals += len(r)
                if hooks.budget is not None and hooks.proposals > hooks.budget:
                    raise BudgetExceeded('proposal budget of %d exhausted' % hooks.budget)
            return r
        self._patch(UnitCube, 'sample', uc_sample)

        o_nbs = NautilusBound.sample

        def nb_sample(self, n_points=100, return_points=True, pool=None):
            hooks._depth += 1
            try:
                r = o_nbs(self, n_points=n_points, return_points=return_points, pool=pool)
            finally:
                hooks._depth -= 1
            if hooks._depth == 0:
                hooks._tick()
            if r is not None and hooks._depth == 0:
                if hooks.capture is not None:
                    hooks.capture.append(np.array(r, copy=True))
                hooks.handed_out += len(r)
            return r
        self._patch(NautilusBound, 'sample', nb_sample)

        from nautilus.bounds import Ellipsoid
        o_es = Ellipsoid.sample

        def e_sample(self, n_points=100):
            # budget enforcement inside the refill loops of Union.sample / NautilusBound.sample (a union that lies
            # outside the unit cube would otherwise spin forever without ever returning to a wrapper)
            hooks._member_draws += n_points
            if hooks.budget is not None and hooks._member_draws > 4 * hooks.budget:
                raise BudgetExceeded('proposal budget of %d exhausted inside a refill loop' % hooks.budget)
            return o_es(self, n_points)
        self._patch(Ellipsoid, 'sample', e_sample)

        o_us = Union.sample

        def u_sample(self, n_points=100):
            n0 = self.n_sample
            r = o_us(self, n_points)
            hooks.proposals += self.n_sample - n0
            if hooks.budget is not None and hooks.proposals > hooks.budget:
                raise BudgetExceeded('proposal budget of %d exhausted' % hooks.budget)
            return r
        self._patch(Union, 'sample', u_sample)

        from nautilus.pool import NautilusPool
        o_map = NautilusPool.map

        def pool_map(self, func, iterable):
            items = list(iterable)
            hooks.emit('pool_map', self, func, len(items))
            return o_map(self, func, items)
        self._patch(NautilusPool, 'map', pool_map)

        if self.clock is not None:
            self._patch(ns, 'time', self.clock)
        return self

    def __exit__(self, *a):
        for obj, name, old in reversed(self._saved):
            setattr(obj, name, old)
        self._saved = []


# ------------------------------------------------------------------ digests
def digest_arrays(*arrays):
    h = hashlib.sha256()
    for a in arrays:
        if a is None:
            h.update(b'None')
            continue
        a = np.ascontiguousarray(a)
        h.update(str(a.dtype).encode())
        h.update(str(a.shape).encode())
        h.update(a.tobytes())
    return h.hexdigest()


def bound_geometry_digest(b):
    """Digest of what defines contains(): ellipsoids, networks, shift - not proposal caches."""
    h = hashlib.sha256()

    def ell(e):
        if e is None:
            h.update(b'-')
            return
        h.update(np.ascontiguousarray(e.c).tobytes())
        h.update(np.ascontiguousarray(e.A).tobytes())
        h.update(np.ascontiguousarray(e.B_inv).tobytes())

    def member(m):
        if hasattr(m, 'dim_cube'):
            h.update(np.ascontiguousarray(m.dim_cube).tobytes())
            ell(m.ellipsoid)
        else:
            ell(m)
    name = type(b).__name__
    h.update(name.encode())
    if name == 'UnitCube':
        h.update(str(int(b.n_dim)).encode())
    elif name == 'NautilusBound':
        if b.shift is not None:
            h.update(np.ascontiguousarray(b.shift.periodic).tobytes())
            h.update(np.ascontiguousarray(b.shift.centers).tobytes())
        for m in b.outer_bound.bounds:
            member(m)
        h.update(np.ascontiguousarray(b.outer_bound.log_v_all).tobytes())
        for nb in b.neural_bounds:
            ell(nb.outer_bound)
            h.update(np.float64(nb.score_predict_min).tobytes())
            if nb.emulator is not None:
                h.update(np.ascontiguousarray(nb.emulator.mean).tobytes())
                h.update(np.ascontiguousarray(nb.emulator.scale).tobytes())
                for net in nb.emulator.neural_networks:
                    for w in list(net.coefs_) + list(net.intercepts_):
                        h.update(np.ascontiguousarray(w).tobytes())
    return h.hexdigest()


def points_array(pts):
    """posterior() points as a float array whatever the prior returns (array, dict of arrays, or - scalar mode
    with a dict-returning prior function - an object array of dicts)."""
    if isinstance(pts, dict):
        return np.column_stack([np.asarray(pts[k], dtype=float) for k in sorted(pts)])
    pts = np.asarray(pts)
    if pts.dtype == object:
        return np.array([[float(r[k]) for k in sorted(r)] for r in pts], dtype=float).reshape(len(pts), -1)
    return pts


def result_digest(s, prob=None):
    """SHA-256 over everything a user reads at the end: posterior arrays, log_z, n_eff, n_like."""
    out = s.posterior(return_blobs=s.blobs is not None)
    pts = out[0]
    pts = points_array(pts)
    arrays = [pts, out[1], out[2]] + ([out[3]] if len(out) > 3 else [])
    lz = s.log_z
    scal = np.array([np.nan if lz is None else lz, s.n_eff, float(s.n_like)], dtype=float)
    return digest_arrays(*arrays, scal)


def sampling_state_digest(s):
    """Digest of everything in a Sampler that determines what it draws next: generator states, proposal caches and
    draw counters of every bound (recursively), plus the stored arrays. Writing a checkpoint must leave it unchanged."""
    import json
    h = hashlib.sha256()
    seen = set()

    def walk(o, depth=0):
        if o is None or id(o) in seen or depth > 6:
            return
        seen.add(id(o))
        h.update(type(o).__name__.encode())
        for name in ('n_sample', 'n_reject'):
            if hasattr(o, name):
                h.update(('%s=%d;' % (name, int(getattr(o, name)))).encode())
        pts = getattr(o, 'points', None)
        if isinstance(pts, np.ndarray):
            h.update(str(pts.shape).encode())
            h.update(np.ascontiguousarray(pts).tobytes())
        rng = getattr(o, 'rng', None)
        if isinstance(rng, np.random.Generator):
            h.update(json.dumps(rng.bit_generator.state, sort_keys=True, default=str).encode())
        for name in ('outer_bound', 'cube', 'ellipsoid'):
            walk(getattr(o, name, None), depth + 1)
        for name in ('bounds', 'neural_bounds'):
            for sub in getattr(o, name, None) or ():
                walk(sub, depth + 1)
        for pb in getattr(o, 'points_bounds', None) or ():
            h.update(np.ascontiguousarray(pb).tobytes())

    for b in s.bounds:
        walk(b)
    h.update(json.dumps(s.rng.bit_generator.state, sort_keys=True, default=str).encode())
    for name in ('points', 'log_l', 'blobs'):
        arrs = getattr(s, name, None)
        if arrs is not None:
            for a in arrs:
                h.update(points_array(a).tobytes() if name == 'points' else np.ascontiguousarray(a).tobytes())
    for name in ('shell_n', 'shell_n_sample', 'shell_n_eff', 'shell_log_l_min', 'shell_log_l', 'shell_log_v'):
        if hasattr(s, name):
            h.update(np.ascontiguousarray(getattr(s, name)).tobytes())
    return h.hexdigest()
