"""Check driver: ./check Cnn [--tier quick|thorough] [--replay path] [--max-cases n]"""
import argparse
import hashlib
import importlib
import json
import os
import sys
import time

from . import env, evidence, findings, runner


def _sum_obs(results):
    tot = {}
    for r in results:
        for k, v in (r.get('obs') or {}).items():
            if isinstance(v, bool):
                v = int(v)
            if isinstance(v, (int, float)):
                if k.startswith('max_') or k.endswith('_max'):
                    tot[k] = max(tot.get(k, v), v)
                else:
                    tot[k] = tot.get(k, 0) + v
            elif isinstance(v, dict):
                d = tot.setdefault(k, {})
                for kk, vv in v.items():
                    if isinstance(vv, (int, float)):
                        d[kk] = d.get(kk, 0) + vv
    return tot


def _write_replay(prop, spec, violation):
    d = os.path.join(env.VERIF, 'evidence', 'replay')
    os.makedirs(d, exist_ok=True)
    blob = json.dumps({'property': prop, 'spec': spec, 'violation': violation},
                      indent=1, default=str, sort_keys=True)
    h = hashlib.sha256(blob.encode()).hexdigest()[:12]
    path = os.path.join(d, '%s-%s.json' % (prop, h))
    with open(path, 'w') as f:
        f.write(blob + '\n')
    return path


def main(argv=None):
    ap = argparse.ArgumentParser()
    ap.add_argument('prop')
    ap.add_argument('--tier', default=None)
    ap.add_argument('--replay', default=None)
    ap.add_argument('--max-cases', type=int, default=None)
    ap.add_argument('--no-evidence', action='store_true')
    ap.add_argument('--dump', default=None, help='write all raw case results to this file')
    a = ap.parse_args(argv)
    prop = a.prop.upper()
    tier = a.tier or env.tier()
    seed = env.seed()
    mod = importlib.import_module('nmon.oracles.' + prop.lower())
    t0 = time.time()

    if a.replay:
        rp = json.load(open(a.replay))
        specs = [rp['spec']] if 'spec' in rp else rp['specs']
        if specs == [None] or specs[0] is None:
            print('replay file has no single-case spec (ensemble verdict); rerun the check '
                  'with VERIF_SEED from the file')
            return 2
        results = runner.run_cases(prop, specs, chunk=1, timeout=getattr(mod, 'TIMEOUT', 900))
        bad = 0
        for r in results:
            print(json.dumps({k: r.get(k) for k in ('status', 'violation', 'obs', 'reason', 'error')},
                             default=str)[:6000])
            if r.get('status') == 'violation':
                bad = 1
                print('VIOLATION property=%s replay=%s' % (prop, a.replay))
        return bad

    specs = mod.gen_cases(tier, seed)
    if a.max_cases:
        specs = specs[:a.max_cases]
    to = getattr(mod, 'TIMEOUT', 900)
    results = runner.run_cases(prop, specs, chunk=getattr(mod, 'CHUNK', {}).get(tier, 4),
                               timeout=to.get(tier, 900) if isinstance(to, dict) else to)

    if a.dump:
        with open(a.dump, 'w') as f:
            json.dump({'specs': specs, 'results': results}, f, default=str)
    viols = []          # (spec, violation dict)
    for spec, r in zip(specs, results):
        if r.get('status') == 'violation':
            for v in (r.get('violations') or [r.get('violation')]):
                viols.append((spec, v))
    agg = {}
    if hasattr(mod, 'aggregate'):
        agg = mod.aggregate(specs, results, tier) or {}
        for v in agg.get('violations', []):
            viols.append((v.get('spec'), v))

    n_ok = sum(r.get('status') in ('ok', 'violation') for r in results)
    n_lost = sum(r.get('status') in ('lost', 'error') for r in results)
    n_skip = sum(r.get('status') == 'skipped' for r in results)
    keys = set()
    for r in results:
        if r.get('status') in ('ok', 'violation') and r.get('nontrivial'):
            keys.add(r.get('key') or json.dumps(specs[r['i']], sort_keys=True, default=str))
    distinct = len(keys)
    if any('nontrivial_count' in r for r in results):   # cases that enumerate many sequences
        distinct = sum(int(r.get('nontrivial_count', 0)) for r in results
                       if r.get('status') in ('ok', 'violation'))
    distinct = agg.get('distinct_nontrivial', distinct)
    obs = _sum_obs(results)
    obs.update(agg.get('obs', {}))

    known, _fixed = findings.load()
    new, listed = [], {}
    for spec, v in viols:
        f = findings.match(prop, v.get('key', '?'), known)
        if f:
            listed.setdefault(f['key'], [f, 0])[1] += 1
        else:
            new.append((spec, v))

    samples = []
    for r in results:
        if r.get('status') == 'ok' and r.get('nontrivial') and len(samples) < 3:
            samples.append({'case': specs[r['i']], 'observed': r.get('obs'),
                            'detail': r.get('sample')})
    if not samples:
        for r in results[:2]:
            samples.append({'case': specs[r['i']], 'status': r.get('status'), 'observed': r.get('obs')})
    samples.extend(agg.get('samples', []))

    reached = obs.get(getattr(mod, 'DECIDING', ''), 1) if getattr(mod, 'DECIDING', None) else 1
    inconclusive = None
    if len(specs) == 0 or n_ok == 0:
        inconclusive = 'no case completed'
    elif n_lost > 0.1 * len(specs):
        inconclusive = '%d of %d cases lost to watchdog/harness errors' % (n_lost, len(specs))
    elif not reached:
        inconclusive = 'deciding monitor %s never reached' % mod.DECIDING
    elif distinct < 2:
        inconclusive = 'fewer than 2 distinct non-trivial cases'
    elif agg.get('inconclusive'):
        inconclusive = agg['inconclusive']

    ev = {
        'property_id': prop, 'tier': tier, 'seed': seed,
        'level': getattr(mod, 'LEVEL', 'exploration'),
        'coverage': {
            'evaluations': len(specs), 'distinct_nontrivial': int(distinct),
            'rule': mod.RULE, 'samples': samples,
            'exhaustive': bool(agg.get('exhaustive', getattr(mod, 'EXHAUSTIVE', False))),
            'completed': n_ok, 'skipped_out_of_domain': n_skip, 'lost_or_harness_error': n_lost,
            'observations': obs,
            'skipped_examples': [r.get('reason') for r in results if r.get('status') == 'skipped'][:5],
            'lost_examples': [{'reason': r.get('reason'), 'error': r.get('error'),
                               'tb': (r.get('traceback') or r.get('stderr') or '')[-600:]}
                              for r in results if r.get('status') in ('lost', 'error')][:3],
            'repo_root': env.REPO,
        },
        'assumptions': list(getattr(mod, 'ASSUMPTIONS', [])),
        'wall_s': round(time.time() - t0, 2),
        'violations': len(new),
        'known_findings_seen': {k: c for k, (f, c) in listed.items()},
        'verdict': 'violation' if new else ('inconclusive' if inconclusive else 'held'),
    }
    ev['coverage'].update(agg.get('coverage', {}))
    if new:
        ev['violation_examples'] = [v for _, v in new[:5]]
    if not a.no_evidence:
        evidence.write(prop, ev)
    errs = evidence.validate(ev)

    for k, (f, c) in listed.items():
        print('KNOWN-FINDING: property=%s %s (%s; seen %d times in this run)'
              % (prop, f['text'], k, c))
    if new:
        seen = set()
        for spec, v in new:
            if v.get('key') in seen:
                continue
            seen.add(v.get('key'))
            path = _write_replay(prop, spec, v)
            print('VIOLATION property=%s replay=%s key=%s %s'
                  % (prop, path, v.get('key'), str(v.get('what'))[:300]))
        return 1
    if inconclusive or errs:
        print('INCONCLUSIVE property=%s reason=%s %s' % (prop, inconclusive, errs or ''))
        return 2
    print('HELD property=%s tier=%s seed=%d cases=%d distinct_nontrivial=%d skipped=%d lost=%d wall=%.0fs'
          % (prop, tier, seed, len(specs), distinct, n_skip, n_lost, time.time() - t0))
    print('observations: ' + json.dumps(obs, default=str)[:1500])
    return 0


if __name__ == '__main__':
    sys.exit(main())
