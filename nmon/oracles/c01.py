"""C01 - every stored sample belongs to exactly one shell: its own.

Invariant hook evaluated with the real contains() of the real bound objects after every bound
insertion, after every batch, whenever a checkpoint is written, at every run() return (also when
the likelihood raises mid-batch) and on every resumed sampler.
"""
import hashlib

import numpy as np

from . import samplercase

ID = 'C01'
LEVEL = 'exploration'
DECIDING = 'membership_tests'
CHUNK = {'quick': 1, 'thorough': 2}
TIMEOUT = {'quick': 600, 'thorough': 1500}
FAMILIES = ['funnel', 'ring', 'mixture', 'plateau', 'periodic', 'gauss', 'islands', 'staircase', 'corr', 'funnel',
            'periodic', 'mixture']
RULE = ('case = one seeded Sampler (family in ' + ', '.join(sorted(set(FAMILIES))) + '; n_live, n_batch incl. 1 and '
        '3, n_update, n_like_new_bound, 0-2 networks, periodic, sampler/likelihood pool, blobs, checkpoint file) '
        'driven through a generated history of run() slices (n_like_max / virtual-clock timeout), toggles, '
        'accessor calls, resumes into a new Sampler object and injected likelihood faults. The invariant hook '
        'checks every stored point against the unit cube, its own bound and all later bounds, and transfer '
        'candidates against the newest bound / their recorded shell. Non-trivial = a case with >= 3 bounds, '
        '>= 1 bound insertion that moved points to the transfer set and >= 1 proposal rejected because a later '
        'bound contains it; distinct by case spec.')
ASSUMPTIONS = ['membership is decided by the real contains() of the real bounds (the property is stated in '
               'terms of it)', 'a flip caused by the 1-ulp round trip of the periodic shift has probability '
               '<~ 1e-13 per point (DESIGN C01)']


def gen_cases(tier, seed):
    return samplercase.gen_cases(ID, tier, seed, 24, 240, FAMILIES, history_kind='mixed')


class PartitionMonitor:
    def __init__(self):
        self.viol = []
        self.obs = dict(membership_tests=0, hook_calls=0, bound_insertions=0, points_moved_to_transfer=0,
                        transfers=0, later_bound_rejections=0, max_bounds=0, checks_at_write=0,
                        checks_at_run_exit=0, checks_after_fault=0, checks_on_resume=0, transfer_candidates_checked=0,
                        shell_checks_reused=0, empty_shells_removed=0)
        self.driver = None
        self.verified = {}

    def bad(self, key, what, s, where):
        if len(self.viol) < 3:
            self.viol.append(dict(key=key, what=what, where=where, n_bounds=len(s.bounds),
                                  n_like=int(s.n_like), explored=bool(s.explored)))

    def check(self, s, where, shells=None):
        self.obs['hook_calls'] += 1
        nb = len(s.bounds)
        if nb < getattr(self, '_nb_last', 0) and s.explored:
            self.obs['empty_shells_removed'] += self._nb_last - nb
            self.verified = {}
        self._nb_last = nb
        self.obs['max_bounds'] = max(self.obs['max_bounds'], nb)
        if len(s.points) != nb:
            self.bad('partition.shell-count', 'len(points)=%d but %d bounds' % (len(s.points), nb), s, where)
            return
        ids = tuple(id(b) for b in s.bounds)
        for i in (range(nb) if shells is None else shells):
            p = s.points[i]
            if len(p) == 0:
                continue
            # a shell whose array content and bound list are unchanged since its last check is not re-tested
            sig = (ids, len(p), hashlib.blake2b(np.ascontiguousarray(p).tobytes(), digest_size=16).digest())
            if self.verified.get(i) == sig:
                self.obs['shell_checks_reused'] += 1
                continue
            self.verified[i] = sig
            if not np.all((p >= 0) & (p < 1)):
                j = int(np.flatnonzero(~np.all((p >= 0) & (p < 1), axis=1))[0])
                self.bad('partition.point-outside-cube', 'shell %d holds a point outside [0,1)^d: %r'
                         % (i, p[j].tolist()), s, where)
            own = s.bounds[i].contains(p)
            self.obs['membership_tests'] += len(p)
            if not np.all(own):
                self.bad('partition.point-not-in-own-bound', '%d of %d points of shell %d are outside bound %d'
                         % (int(np.sum(~own)), len(p), i, i), s, where)
            for k in range(i + 1, nb):
                later = s.bounds[k].contains(p)
                self.obs['membership_tests'] += len(p)
                if np.any(later):
                    self.bad('partition.point-in-later-bound', '%d of %d points stored in shell %d lie inside the '
                             'later bound %d' % (int(np.sum(later)), len(p), i, k), s, where)
                    break
            if shells is None:
                assoc = s.shell_association(p)
                if not np.all(assoc == i):
                    self.bad('partition.shell-association-disagrees', 'shell_association() assigns %d points of '
                             'shell %d elsewhere' % (int(np.sum(assoc != i)), i), s, where)
        # live transfer candidates
        if not s.explored and nb > 1 and len(s.shell_t) > 0:
            live = np.asarray(s.shell_t) >= 0
            if np.any(live):
                pt, st = np.asarray(s.points_t)[live], np.asarray(s.shell_t)[live]
                self.obs['transfer_candidates_checked'] += len(pt)
                inside = s.bounds[-1].contains(pt)
                self.obs['membership_tests'] += len(pt)
                if not np.all(inside):
                    self.bad('partition.transfer-candidate-outside-newest', '%d live transfer candidates are not in '
                             'the newest bound' % int(np.sum(~inside)), s, where)
                assoc = s.shell_association(pt, n_max=nb - 1)
                if not np.all(assoc == st):
                    self.bad('partition.transfer-candidate-wrong-shell', '%d live transfer candidates record a shell '
                             'that is not their association among the older bounds' % int(np.sum(assoc != st)), s, where)

    # events
    def on_after_add_bound(self, s, result):
        if result and len(s.bounds) > 1:
            self.obs['bound_insertions'] += 1
            self.obs['points_moved_to_transfer'] += int(len(s.shell_t))
        self.check(s, 'after add_bound')

    def on_after_sample_shell(self, s, index, result, handed):
        n_kept = len(result[0]) + (len(result[2]) if len(result) > 2 else 0)
        later = len(s.bounds[index:]) > 1
        if later and result[1] > n_kept:
            self.obs['later_bound_rejections'] += int(result[1] - n_kept)
        if len(result) > 2:
            self.obs['transfers'] += int(len(result[2]))

    def on_after_add_samples(self, s, shell, result, handed):
        i = shell % len(s.bounds)
        self.check(s, 'after add_samples(%d)' % shell, shells=[i])

    def on_before_write(self, s, kind):
        self.obs['checks_at_write'] += 1
        self.check(s, 'at checkpoint ' + kind)

    def on_run_exit(self, s, kw, result, exc):
        self.obs['checks_at_run_exit'] += 1
        if exc is not None:
            self.obs['checks_after_fault'] += 1
        self.check(s, 'at run() return (%s)' % ('exception ' + type(exc).__name__ if exc is not None else result))

    def on_resume(self, s):
        self.obs['checks_on_resume'] += 1
        self.verified = {}
        self.check(s, 'on resumed sampler')


def run_case(spec):
    mon = PartitionMonitor()
    status, info = samplercase.run(spec, [mon])
    o = mon.obs
    nontrivial = o['max_bounds'] >= 3 and o['points_moved_to_transfer'] > 0 and o['later_bound_rejections'] > 0
    res = {'obs': o, 'nontrivial': bool(nontrivial), 'key': samplercase.case_key(spec),
           'sample': {'trace': [{k: v for k, v in r.items() if k != 'kw'} for r in info['driver'].trace[:12]]}}
    if mon.viol:
        res.update(status='violation', violations=[dict(v, case=samplercase.case_key(spec)) for v in mon.viol])
    elif status == 'ok':
        res['status'] = 'ok'
    else:
        res.update(status='skipped', reason=info.get('reason'), traceback=info.get('traceback'))
    return res
