"""C02 - log_z, n_eff, eta and weights are exactly the estimators of the stored samples.

A reference estimator recomputes everything from points / log_l / bounds[i].log_v / proposal
counts and is compared with the sampler's accessors at every batch boundary; the proposal count
itself is observed at the bound.sample() boundary.
"""
import warnings

import numpy as np
from scipy.special import logsumexp

from . import samplercase

ID = 'C02'
LEVEL = 'exploration'
DECIDING = 'estimator_comparisons'
CHUNK = {'quick': 1, 'thorough': 2}
TIMEOUT = {'quick': 600, 'thorough': 1500}
FAMILIES = ['plateau', 'islands', 'mixture', 'funnel', 'gauss', 'periodic', 'staircase', 'ring', 'corr', 'constant',
            'plateau', 'funnel']
RTOL = 1e-10
RULE = ('case = one seeded Sampler (families incl. -inf plateaus/islands, all configuration axes of DESIGN 1.1) '
        'driven through a generated history of run() slices, discard_exploration toggles at arbitrary boundaries, '
        'accessor calls and resumes. After every add_bound/add_samples, at every checkpoint write, run() return, '
        'toggle and on every resumed sampler a reference estimator recomputes per-shell counts, volumes, mean '
        'likelihoods, Kish sizes, log_z, n_eff, eta and (at a subset of hooks) posterior() weights from the stored '
        'arrays and compares at rel. 1e-10; the proposals handed out by the bound are counted at its sample() '
        'boundary and compared with the increase of shell_n_sample, and the monitor keeps its own running total per shell '
        '(so a counter changed anywhere else is seen too); the proposals of every sample_shell call are captured and must '
        'be conserved (handed out = rejected by a later bound + used). Non-trivial = >= 1 transfer, >= 1 shell with '
        'count < proposals and >= 1 comparison under a non-empty discarded view; distinct by case spec.')
ASSUMPTIONS = ['states inside an exception are not batch boundaries and are not checked',
               'bounds[i].log_v is taken from the real bound (its calibration is C08)']


def gen_cases(tier, seed):
    return samplercase.gen_cases(ID, tier, seed, 24, 240, FAMILIES, history_kind='plain')


def _close(a, b):
    if a is None or b is None:
        return a is None and b is None
    a, b = np.asarray(a, dtype=float), np.asarray(b, dtype=float)
    if a.shape != b.shape:
        return False
    with np.errstate(invalid='ignore'):
        same = (a == b) | (np.isnan(a) & np.isnan(b))
        return bool(np.all(same | (np.abs(a - b) <= 1e-10 + RTOL * np.abs(b))))


class EstimatorMonitor:
    WANTS_PROPOSALS = True

    def __init__(self):
        self.viol = []
        self.obs = dict(estimator_comparisons=0, hook_calls=0, posterior_comparisons=0, proposal_count_checks=0,
                        transfers=0, shells_with_count_lt_proposals_max=0, discarded_view_comparisons=0,
                        empty_view_comparisons=0, neg_inf_samples_max=0, checks_on_resume=0, checks_after_toggle=0,
                        max_bounds=0, empty_shells_removed=0, proposal_total_checks=0, proposal_tracking_lost=0, proposal_conservation_checks=0,
                        proposals_traced=0)
        self.driver = None
        self._n_sample_before = None
        self.batches = 0
        self.own_prop = []          # proposals per shell as observed at the bound.sample() boundary since the start
        self._lens = []

    def bad(self, key, what, s, where, **kw):
        if len(self.viol) < 3 and key not in [v['key'] for v in self.viol]:
            self.viol.append(dict(key=key, what=what, where=where, n_bounds=len(s.bounds), n_like=int(s.n_like),
                                  explored=bool(s.explored), discard=bool(s._discard_exploration), **kw))

    def check(self, s, where, with_posterior=False):
        self.obs['hook_calls'] += 1
        nb = len(s.bounds)
        if nb < getattr(self, '_nb_last', 0) and s.explored:
            self.obs['empty_shells_removed'] += self._nb_last - nb
            if self.own_prop is not None and len(self._lens) == len(self.own_prop):
                self.own_prop = [c for c, n in zip(self.own_prop, self._lens) if n > 0]     # empty shells were dropped
            if self.own_prop is not None and len(self.own_prop) != nb:
                self.own_prop = None
                self.obs['proposal_tracking_lost'] += 1
        self._nb_last = nb
        self._lens = [len(p) for p in s.points]
        self.obs['max_bounds'] = max(self.obs['max_bounds'], nb)
        if nb == 0:
            return
        lens = dict(points=len(s.points), log_l=len(s.log_l), shell_n=len(s.shell_n),
                    shell_n_sample=len(s.shell_n_sample), shell_n_eff=len(s.shell_n_eff),
                    shell_log_l=len(s.shell_log_l), shell_log_v=len(s.shell_log_v),
                    shell_log_l_min=len(s.shell_log_l_min))
        if s.blobs is not None:
            lens['blobs'] = len(s.blobs)
        if s.explored:
            lens['shell_n_sample_exp'] = len(s.shell_n_sample_exp)
            lens['shell_end_exp'] = len(s.shell_end_exp)
        if set(lens.values()) != {nb}:
            self.bad('estimator.per-shell-records-misaligned', 'per-shell records differ in length: %r (bounds %d)'
                     % (lens, nb), s, where)
            return
        if self.own_prop is not None and len(self.own_prop) == nb:
            self.obs['proposal_total_checks'] += 1
            if [int(v) for v in s.shell_n_sample] != self.own_prop:
                j = [int(a) != b for a, b in zip(s.shell_n_sample, self.own_prop)].index(True)
                self.bad('estimator.proposal-total', 'shell_n_sample[%d] = %d but the bound of that shell handed out %d '
                         'proposals since the start of the run' % (j, int(s.shell_n_sample[j]), self.own_prop[j]), s, where)
        disc = bool(s._discard_exploration and s.explored)
        ref_v, ref_l, ref_neff, ref_n = (np.full(nb, -np.inf), np.full(nb, np.nan), np.zeros(nb),
                                         np.zeros(nb, dtype=int))
        terms = []
        n_lt = 0
        for i in range(nb):
            if len(s.points[i]) != len(s.log_l[i]) or (s.blobs is not None and len(s.blobs[i]) != len(s.log_l[i])):
                self.bad('estimator.sample-arrays-misaligned', 'shell %d: %d points, %d log_l, %s blobs'
                         % (i, len(s.points[i]), len(s.log_l[i]), len(s.blobs[i]) if s.blobs is not None else '-'),
                         s, where)
                return
            start = int(s.shell_end_exp[i]) if disc else 0
            ll = np.asarray(s.log_l[i][start:], dtype=float)
            n = len(ll)
            prop = int(s.shell_n_sample[i]) - (int(s.shell_n_sample_exp[i]) if disc else 0)
            ref_n[i] = n
            if int(s.shell_n[i]) != n:
                self.bad('estimator.shell-count-stale', 'shell_n[%d] = %d but the current view holds %d samples'
                         % (i, int(s.shell_n[i]), n), s, where)
                return
            if n > prop:
                self.bad('estimator.count-exceeds-proposals', 'shell %d: %d samples in view but only %d proposals '
                         'counted' % (i, n, prop), s, where)
                return
            if n == 0:
                continue
            n_lt += int(n < prop)
            self.obs['neg_inf_samples_max'] = max(self.obs['neg_inf_samples_max'], int(np.sum(np.isneginf(ll))))
            ref_v[i] = float(s.bounds[i].log_v) + np.log(n / prop)
            with np.errstate(divide='ignore', invalid='ignore'):
                ref_l[i] = logsumexp(ll) - np.log(n)
                ref_neff[i] = n if np.all(np.isneginf(ll)) else np.exp(2 * logsumexp(ll) - logsumexp(2 * ll))
            terms.append(ll + (ref_v[i] - np.log(n)))
        self.obs['shells_with_count_lt_proposals_max'] = max(self.obs['shells_with_count_lt_proposals_max'], n_lt)
        has = ref_n > 0
        self.obs['estimator_comparisons'] += 1
        if disc:
            self.obs['discarded_view_comparisons'] += int(np.any(has))
            self.obs['empty_view_comparisons'] += int(not np.any(has))
        for name, got, want in (('shell_log_v', s.shell_log_v, ref_v), ('shell_log_l', s.shell_log_l, ref_l),
                                ('shell_n_eff', s.shell_n_eff, ref_neff)):
            if not _close(np.asarray(got)[has], want[has]):
                j = int(np.flatnonzero(has)[np.flatnonzero(~np.isclose(np.asarray(got, dtype=float)[has], want[has],
                                                                       rtol=1e-9, atol=1e-9, equal_nan=True))[0]])
                self.bad('estimator.%s-not-from-samples' % name, '%s[%d] = %r but the stored samples give %r'
                         % (name, j, float(np.asarray(got)[j]), float(want[j])), s, where)
                return
        if np.any(np.asarray(s.shell_n_eff)[~has] != 0):
            self.bad('estimator.empty-shell-has-n_eff', 'a shell without samples in view reports n_eff != 0', s, where)
        with warnings.catch_warnings(), np.errstate(all='ignore'):
            warnings.simplefilter('ignore')
            if not np.any(has):
                if s.log_z is not None:
                    self.bad('estimator.log_z-without-samples', 'log_z = %r with no samples in view' % s.log_z, s, where)
                return
            t = np.concatenate(terms)
            want_z = logsumexp(t)
            if not _close(s.log_z, want_z):
                self.bad('estimator.log_z-not-from-samples', 'log_z = %r but sum over stored samples of L*V gives %r'
                         % (float(s.log_z), float(want_z)), s, where)
            w = np.exp(t - np.max(t)) if np.isfinite(np.max(t)) else np.zeros(len(t))
            want_neff = (np.sum(w) ** 2 / np.sum(w ** 2)) if np.sum(w) > 0 else 0
            got_neff = s.n_eff
            if np.sum(w) > 0 and not np.isclose(got_neff, want_neff, rtol=1e-9, atol=1e-9):
                self.bad('estimator.n_eff-not-kish', 'n_eff = %r but the Kish size of the weights is %r'
                         % (float(got_neff), float(want_neff)), s, where)
            if np.sum(w) > 0:
                z_i = ref_l[has] + ref_v[has]
                eta_i = ref_neff[has] / ref_n[has]
                want_eta = np.exp(2 * logsumexp(z_i) - 2 * logsumexp(z_i - 0.5 * np.log(eta_i)))
                if not np.isclose(s.eta, want_eta, rtol=1e-9, atol=1e-12):
                    self.bad('estimator.eta', 'eta = %r, definition gives %r' % (float(s.eta), float(want_eta)), s, where)
            if with_posterior:
                self.obs['posterior_comparisons'] += 1
                out = s.posterior()
                log_w, log_l = out[1], out[2]
                ll_all = np.concatenate([np.asarray(s.log_l[i][(int(s.shell_end_exp[i]) if disc else 0):])
                                         for i in range(nb)])
                if len(log_w) != len(t) or len(log_l) != len(t):
                    self.bad('estimator.posterior-length', 'posterior() returns %d rows, the view holds %d samples'
                             % (len(log_w), len(t)), s, where)
                elif not np.array_equal(log_l, ll_all):
                    self.bad('estimator.posterior-log_l', 'posterior() log_l is not the stored log_l in shell order',
                             s, where)
                elif np.sum(w) > 0 and not _close(log_w, t - want_z):
                    self.bad('estimator.posterior-weights', 'posterior() weights are not the normalised per-sample '
                             'L*V terms (max abs diff %g)' % float(np.nanmax(np.abs(log_w - (t - want_z))
                                                                       [np.isfinite(t)])), s, where)
                elif np.sum(w) > 0 and abs(logsumexp(log_w)) > 1e-9:
                    self.bad('estimator.posterior-not-normalised', 'posterior() weights sum to exp(%g)'
                             % float(logsumexp(log_w)), s, where)

    # events
    def on_after_add_bound(self, s, result):
        if result and self.own_prop is not None:
            self.own_prop.append(0)
        self.check(s, 'after add_bound')

    def on_before_add_samples(self, s, shell):
        self._n_sample_before = int(s.shell_n_sample[shell])

    def on_after_sample_shell(self, s, index, result, handed):
        if len(result) > 2:
            self.obs['transfers'] += int(len(result[2]))
        # conservation of proposals: every point the bound handed out either lies in a later bound (rejected) or is used
        # (returned, or swapped for a transfer candidate) - a proposal that stayed in the shell but was dropped would be
        # counted in the denominator of the shell volume and never in the numerator
        prop = getattr(getattr(self, 'hooks', None), 'last_proposals', None)
        if prop is not None and len(prop) == handed:
            stay = np.ones(len(prop), dtype=bool)
            for b in s.bounds[index:][1:]:
                stay &= ~b.contains(prop)
            used = len(result[0]) + (len(result[2]) if len(result) > 2 else 0)
            self.obs['proposal_conservation_checks'] += 1
            self.obs['proposals_traced'] += len(prop)
            if int(np.sum(stay)) != used:
                self.bad('estimator.proposals-not-conserved', 'sample_shell(%d): the bound handed out %d proposals, %d of '
                         'them lie in no later bound, but %d were used' % (index, len(prop), int(np.sum(stay)), used),
                         s, 'after sample_shell')

    def on_after_add_samples(self, s, shell, result, handed):
        self.batches += 1
        delta = int(s.shell_n_sample[shell]) - self._n_sample_before
        self.obs['proposal_count_checks'] += 1
        if self.own_prop is not None and len(self.own_prop) == len(s.bounds):
            self.own_prop[shell] += handed
        if delta != handed:
            self.bad('estimator.proposal-count', 'add_samples(%d) raised shell_n_sample by %d but the bound handed out '
                     '%d proposals' % (shell, delta, handed), s, 'after add_samples')
        self.check(s, 'after add_samples(%d)' % shell, with_posterior=(self.batches % 12 == 0))

    def on_before_write(self, s, kind):
        self.check(s, 'at checkpoint ' + kind)

    def on_run_exit(self, s, kw, result, exc):
        if exc is None:
            self.check(s, 'at run() return', with_posterior=True)

    def on_after_toggle(self, s, value):
        self.obs['checks_after_toggle'] += 1
        self.check(s, 'after discard_exploration = %s' % value, with_posterior=True)

    def on_resume(self, s):
        self.obs['checks_on_resume'] += 1
        path = getattr(self.driver, 'path', None)
        if path is not None:
            import h5py
            with h5py.File(path, 'r') as f:
                stored = [str(f['bound_%d' % i].attrs['type']) for i in range(len(s.bounds)) if 'bound_%d' % i in f]
            live = [type(b).__name__ for b in s.bounds]
            if stored != live:
                j = [a != b for a, b in zip(stored, live)].index(True) if len(stored) == len(live) else -1
                self.bad('resume.bound-class-not-restored', 'bound %d was written as %s but the resumed sampler holds a %s'
                         % (j, stored[j] if j >= 0 else stored, live[j] if j >= 0 else live), s, 'on resumed sampler')
        self.check(s, 'on resumed sampler', with_posterior=True)


def run_case(spec):
    mon = EstimatorMonitor()
    status, info = samplercase.run(spec, [mon])
    o = mon.obs
    nontrivial = o['transfers'] > 0 and o['shells_with_count_lt_proposals_max'] > 0 and o['discarded_view_comparisons'] > 0
    res = {'obs': o, 'nontrivial': bool(nontrivial), 'key': samplercase.case_key(spec),
           'sample': {'history': spec['hist'][:10]}}
    if mon.viol:
        res.update(status='violation', violations=[dict(v, case=samplercase.case_key(spec)) for v in mon.viol])
    elif status == 'ok':
        res['status'] = 'ok'
    else:
        res.update(status='skipped', reason=info.get('reason'), traceback=info.get('traceback'))
    return res
