"""C03 - posterior rows are faithful (point, log-likelihood, blob) triples, once each.

The harness owns the likelihood, so every batch returned by evaluate_likelihood and every row
returned by posterior() is re-evaluated with the same pure function in the same evaluation mode.
"""
import warnings

import numpy as np

from . import samplercase
from .. import env, workloads, drive

ID = 'C03'
LEVEL = 'exploration'
DECIDING = 'posterior_rows_reevaluated'
CHUNK = {'quick': 1, 'thorough': 2}
TIMEOUT = {'quick': 600, 'thorough': 1500}
FAMILIES = ['gauss', 'mixture', 'funnel', 'periodic', 'corr', 'ring', 'plateau']
N_BATCH = [1, 2, 3, 100, 16, 1, 50, 3, 100]
RULE = ('case = one seeded Sampler over the cross product {scalar, vectorised} x prior {function, in-place function, '
        'function returning dicts, Prior object -> dict (fixed + linked keys), Prior object -> array} x n_batch in '
        '{1,2,3,16,50,100} x blob kind {none, float, int, several (inferred structured dtype), explicit structured '
        'dtype with bytes field, explicit scalar dtype, array-valued} x {serial, likelihood pool, sampler pool}, driven '
        'through slices, toggles and resumes. Monitors: every evaluate_likelihood batch and every posterior(return_'
        'blobs=True) row (at run() returns, toggles, resumes) is re-evaluated; unit points are compared with what '
        'was passed to the likelihood; all stored points + live transfer candidates must be pairwise distinct and '
        'evaluated exactly once. Non-trivial = >= 1 transfer and >= 1 sampling-phase batch; distinct by (mode, '
        'prior kind, blob kind, batch size, pool).')
ASSUMPTIONS = ['re-evaluation is bit-exact in scalar mode; rel. 1e-12 in vectorised mode',
               'physical points of Prior-object priors are taken from the Prior under test (its correctness is C15)']


def gen_cases(tier, seed):
    n = 30 if tier == 'quick' else 360
    cases = []
    for i in range(n):
        rng = env.case_rng(ID, i, seed)
        pool = ['none', 'l2', 'none', 'none', 's2', 'none'][i % 6]     # 6 and 5 (priors) are coprime: every pair occurs
        pspec = workloads.gen_problem(rng, family=FAMILIES[i % len(FAMILIES)],
                                      prior=workloads.PRIORS[i % len(workloads.PRIORS)],
                                      blobs=workloads.BLOBS[(i + i // 5) % len(workloads.BLOBS)],
                                      vectorized=bool((i // 2) % 2) and pool != 'l2')
        nb = N_BATCH[(i + i // 7) % len(N_BATCH)]
        if pool == 'l2' and nb % 2:
            nb += 1
        cfg = workloads.gen_cfg(rng, pspec, pool=pool, n_batch=nb, networks=[0, 0, 1, 0, 2, 0][i % 6])
        if nb <= 3:
            cfg.update(f_live=0.2, n_eff=100, n_live=30, n_networks=min(cfg['n_networks'], 1))
        if i % 10 == 9:
            # one update per bound with blobs: empty shells are removed at the end of exploration and the blob arrays
            # have to be renumbered together with points and log_l
            pspec['blobs'] = workloads.BLOBS[1 + (i // 10) % (len(workloads.BLOBS) - 1)]
            cfg.update(n_update=1, n_live=10, n_batch=int(rng.choice([1, 2])), f_live=1e-3, n_networks=0, n_eff=40,
                       n_shell=1, n_like_new_bound=None, n_points_min=None, enlarge_per_dim=2.0, pool='none')
        hist = drive.gen_history(rng, cfg, kind='plain')
        if i % 10 == 4:
            # sampler pool, few bounds, > 10 000 points per shell: the pool path refills a bound's proposal cache while
            # it still holds left-over points
            pspec = workloads.gen_problem(rng, family='gauss', d=2, prior='func', blobs='float', vectorized=True)
            cfg = workloads.gen_cfg(rng, pspec, pool='s2', n_batch=500, networks=0)
            cfg.update(n_live=200, f_live=0.3, n_shell=12000, n_eff=100, n_update=None, n_like_new_bound=None,
                       periodic=None, filepath=False, discard_exploration=False)
            hist = [['run_abs', 150000], ['access', ['posterior_blobs']]]
            cases.append({'i': i, 'seed': seed, 'prob': pspec, 'cfg': cfg, 'hist': hist, 'n_like_cap': 150000})
            continue
        cases.append({'i': i, 'seed': seed, 'prob': pspec, 'cfg': cfg, 'hist': hist})
    return cases


class FaithMonitor:
    def __init__(self, prob):
        self.prob = prob
        self.viol = []
        self.obs = dict(posterior_rows_reevaluated=0, batches_reevaluated=0, batch_rows_reevaluated=0,
                        posterior_checks=0, uniqueness_checks=0, transfers=0, sampling_phase_batches=0,
                        checks_on_resume=0, checks_under_discard=0, blob_rows_compared=0, points_evaluated=0)
        self.evaluated = set()
        self.driver = None

    def bad(self, key, what, s, where, **kw):
        if len(self.viol) < 3 and key not in [v['key'] for v in self.viol]:
            self.viol.append(dict(key=key, what=what, where=where, n_like=int(s.n_like), n_bounds=len(s.bounds), **kw))

    def phys(self, s, u):
        """Physical points (n,d) the likelihood sees for unit points u."""
        if self.prob.prior_kind.startswith('Prior'):
            return np.asarray(s.prior.unit_to_physical(np.array(u, dtype=float)))
        return self.prob.to_phys(u)

    def same_logl(self, got, want):
        got, want = np.asarray(got, dtype=float), np.asarray(want, dtype=float)
        if got.shape != want.shape:
            return False
        if self.prob.vectorized:
            with np.errstate(invalid='ignore'):
                return bool(np.all((got == want) | (np.abs(got - want) <= 1e-12 * np.maximum(1.0, np.abs(want)))))
        return bool(np.array_equal(got, want))

    def on_before_eval(self, s, points):
        self._u_in = np.array(points, dtype=float, copy=True)

    def on_after_eval(self, s, points, log_l, blobs, n0):
        where = 'evaluate_likelihood'
        if not np.array_equal(points, self._u_in):
            self.bad('faithful.unit-points-modified-by-evaluation', 'evaluate_likelihood changed the unit points it '
                     'was given (in-place prior leaking into sampler state)', s, where)
        for row in self._u_in:
            b = row.tobytes()
            if b in self.evaluated:
                self.bad('faithful.point-evaluated-twice', 'the unit point %r was passed to the likelihood twice'
                         % row.tolist(), s, where)
            self.evaluated.add(b)
        self.obs['points_evaluated'] += len(self._u_in)
        x = self.phys(s, self._u_in)
        self.obs['batches_reevaluated'] += 1
        self.obs['batch_rows_reevaluated'] += len(x)
        if not self.same_logl(log_l, self.prob.ref_logl_phys(x)):
            self.bad('faithful.batch-log_l-misaligned', 'log_l returned for a batch is not the likelihood of its rows '
                     'in proposal order', s, where)
        if self.prob.blob_kind != 'none':
            want = self.prob.ref_blobs_phys(x, s.blobs_dtype)
            if blobs is None or np.shape(blobs) != want.shape or not np.array_equal(blobs, want):
                self.bad('faithful.batch-blobs-misaligned', 'blobs returned for a batch of %d rows have shape %s '
                         '(want %s) or differ from the blob function of their rows'
                         % (len(x), np.shape(blobs), want.shape), s, where)
        if s.explored:
            self.obs['sampling_phase_batches'] += 1

    def on_after_sample_shell(self, s, index, result, handed):
        if len(result) > 2:
            self.obs['transfers'] += int(len(result[2]))

    def check_state(self, s, where):
        nb = len(s.bounds)
        if nb == 0 or sum(len(p) for p in s.points) == 0:
            return
        has_blobs = self.prob.blob_kind != 'none'
        for i in range(nb):
            if len(s.points[i]) != len(s.log_l[i]) or (has_blobs and s.blobs is not None and len(s.blobs[i]) != len(s.log_l[i])):
                self.bad('faithful.shell-arrays-misaligned', 'shell %d: %d points, %d log_l, %s blobs'
                         % (i, len(s.points[i]), len(s.log_l[i]), len(s.blobs[i]) if s.blobs is not None else '-'), s, where)
                return
        # uniqueness over everything the sampler holds
        allu = [p for p in s.points if len(p)]
        if not s.explored and len(s.shell_t) > 0 and np.any(np.asarray(s.shell_t) >= 0):
            allu.append(np.asarray(s.points_t)[np.asarray(s.shell_t) >= 0])
        allu = np.vstack(allu)
        self.obs['uniqueness_checks'] += 1
        if len(np.unique(allu, axis=0)) != len(allu):
            self.bad('faithful.duplicate-point', '%d stored points (shells + live transfer candidates) occur more than '
                     'once' % (len(allu) - len(np.unique(allu, axis=0))), s, where)
        missing = [r for r in allu if r.tobytes() not in self.evaluated]
        if missing:
            self.bad('faithful.stored-point-never-evaluated', '%d stored unit points were never passed to the '
                     'likelihood (first: %r)' % (len(missing), missing[0].tolist()), s, where)
        disc = bool(s._discard_exploration and s.explored)
        starts = [int(s.shell_end_exp[i]) if disc else 0 for i in range(nb)]
        u = np.concatenate([s.points[i][starts[i]:] for i in range(nb)])
        if len(u) == 0:
            return
        with warnings.catch_warnings(), np.errstate(all='ignore'):
            warnings.simplefilter('ignore')
            out = s.posterior(return_blobs=has_blobs)
        self.obs['posterior_checks'] += 1
        self.obs['checks_under_discard'] += int(disc)
        pts = out[0]
        if isinstance(pts, dict):
            pts = np.column_stack([np.asarray(pts[k]) for k in self.prob.keys])
        elif getattr(pts, 'dtype', None) == object:      # scalar mode with a dict-returning prior function
            pts = np.array([[float(row[k]) for k in self.prob.keys] for row in pts])
        pts = np.asarray(pts, dtype=float)
        if pts.shape != u.shape:
            self.bad('faithful.posterior-shape', 'posterior() points have shape %s, the view holds %s' % (pts.shape, u.shape), s, where)
            return
        want_x = self.phys(s, u)
        if not np.allclose(pts, want_x, rtol=1e-12, atol=1e-12):
            self.bad('faithful.posterior-point-not-stored-point', 'posterior() points are not the prior transform of the '
                     'stored unit points in shell order', s, where)
            return
        self.obs['posterior_rows_reevaluated'] += len(pts)
        if not self.same_logl(out[2], self.prob.ref_logl_phys(pts)):
            bad_rows = int(np.sum(np.asarray(out[2]) != self.prob.ref_logl_phys(pts)))
            self.bad('faithful.posterior-log_l-misaligned', '%d of %d posterior rows carry a log_l that is not the '
                     'likelihood of their point' % (bad_rows, len(pts)), s, where)
        if has_blobs:
            want = self.prob.ref_blobs_phys(pts, s.blobs_dtype)
            self.obs['blob_rows_compared'] += len(pts)
            if np.shape(out[3]) != want.shape or not np.array_equal(out[3], want):
                self.bad('faithful.posterior-blob-misaligned', 'posterior blobs (shape %s, dtype %s) are not the blob '
                         'function of their points (shape %s)' % (np.shape(out[3]), getattr(out[3], 'dtype', None),
                                                               want.shape), s, where)

    def on_run_exit(self, s, kw, result, exc):
        if exc is None:
            self.check_state(s, 'at run() return')

    def on_after_toggle(self, s, value):
        self.check_state(s, 'after discard_exploration = %s' % value)

    def on_resume(self, s):
        self.obs['checks_on_resume'] += 1
        self.check_state(s, 'on resumed sampler')


def _raise_is_violation(e, drv):
    """A raise in a mode the property enumerates (any batch size >= 1, any blob dtype, in-place prior, pool)."""
    desc = drive.describe_exc(e)
    p, c = drv.spec['prob'], drv.spec['cfg']
    if isinstance(e, (np.linalg.LinAlgError,)):
        return None
    if c['n_batch'] == 1 and p['blobs'] != 'none':
        key = 'blobs.batch-of-one-squeezed'
    else:
        key = 'faithful.raise.%s' % type(e).__name__
    return dict(key=key, what='the run raised %s (n_batch=%d, blobs=%s, prior=%s, vectorized=%s, pool=%s)'
                % (desc, c['n_batch'], p['blobs'], p['prior'], p['vectorized'], c['pool']))


def run_case(spec):
    prob_probe = workloads.Problem(spec['prob'])
    mon = FaithMonitor(prob_probe)
    # the driver builds its own Problem; share it so the reference and the likelihood are the same object
    status, info = samplercase.run(spec, [mon], code_raise_is_violation=_raise_is_violation)
    mon_prob = info['driver'].prob
    o = mon.obs
    p, c = spec['prob'], spec['cfg']
    nontrivial = o['transfers'] > 0 and o['sampling_phase_batches'] > 0 and o['posterior_rows_reevaluated'] > 0
    res = {'obs': o, 'nontrivial': bool(nontrivial),
           'key': '%s|%s|%s|nb%d|%s' % ('vec' if p['vectorized'] else 'scalar', p['prior'], p['blobs'], c['n_batch'], c['pool']),
           'sample': {'family': p['family'], 'history': spec['hist'][:8]}}
    viols = list(mon.viol)
    if status == 'violation':
        viols.append(info['violation'])
    if viols:
        res.update(status='violation', violations=[dict(v, case=samplercase.case_key(spec)) for v in viols])
    elif status == 'ok':
        res['status'] = 'ok'
    else:
        res.update(status='skipped', reason=info.get('reason'), traceback=info.get('traceback'))
    return res
