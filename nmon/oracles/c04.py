"""C04 - evidence and posterior are statistically correct on problems with known answers.

Ensemble monitor: N independent seeds per (problem, configuration); thresholds from exact
Student-t / chi-square quantiles for the actual ensemble size.
"""
import warnings

import numpy as np
from scipy import stats

from . import samplercase
from .. import env, workloads

ID = 'C04'
LEVEL = 'exploration'
DECIDING = 'runs_converged'
CHUNK = {'quick': 1, 'thorough': 1}
TIMEOUT = 2400
DELTA = 0.005            # resolution of "no systematic offset" with exploration discarded
DELTA_KEPT = 0.03        # documented pseudo-importance bias when exploration is kept
P_T = 5e-10              # one-sided level of the t bound
P_CHI = 1e-9
RULE = ('ensembles of N independent seeds (quick 40, thorough 96; volume ensembles 24 / 48) per (problem, configuration): truncated Gaussian, '
        'correlated Gaussian, separated two-mode mixture, half-space -inf plateau with log ramp, wrap-around peak '
        'declared periodic; n_live 300-500, n_eff target 2000-3000, networks 0/1, sampler pool, exploration discarded '
        'or kept. Tests per ensemble: (i) |mean(log_z - log Z_true)| < delta + t_{N-1}(1-5e-10) * max(se, median '
        'sigma/sqrt N) with delta 0.005 (0.03 with exploration kept); (ii) std((log_z-truth)/sigma) < 1.5 * '
        'sqrt(chi2_{N-1}(1-1e-9)/(N-1)), sigma = 1/sqrt(n_eff); (iii) the same offset test for posterior means and '
        'variances (Gaussian problems, delta = 0.5 % of the width); (v) volume ensembles on all families incl. funnel, '
        'ring with a network and periodic: after exploration every shell is sampled a fixed 10 batches and '
        'mean(sum_i exp(shell_log_v) - 1) must vanish within the inverse-sampling bias allowance + t*se. '
        'Non-trivial = ensembles in which every member converged (run() returned True); evaluations = runs.')
ASSUMPTIONS = ['false-alarm probability <= ~1e-8 per invocation provided the true offset is below delta',
               'power: quick (N=40, t bound 8.3) detects systematic offsets >~ 3 %, thorough (N=96) >~ 1.5 %']


def _problems(tier):
    P = []
    g2 = dict(family='gauss', d=2, par={'mu': [0.5, 0.5], 'sig': [0.1, 0.1]}, prior='func', blobs='none',
              vectorized=True, lo=[0.0, 0.0], hi=[1.0, 1.0])
    plat = dict(family='plateau', d=2, par={'t': 0.9}, prior='func', blobs='none', vectorized=True,
                lo=[0.0, 0.0], hi=[1.0, 1.0])
    per = dict(family='periodic', d=2, par={'mu': [0.02, 0.5], 'sig': [0.06, 0.08], 'periodic': [0]}, prior='func',
               blobs='none', vectorized=True, lo=[0.0, 0.0], hi=[1.0, 1.0])
    mix = dict(family='mixture', d=3, par={'mus': [[0.25, 0.4, 0.5], [0.75, 0.6, 0.5]],
                                          'sigs': [[0.04, 0.05, 0.06], [0.05, 0.04, 0.06]]},
               prior='func', blobs='none', vectorized=True, lo=[0.0] * 3, hi=[1.0] * 3)
    corr = dict(family='corr', d=3, par={'mu': [0.5, 0.5, 0.5], 'sig': [0.05, 0.04, 0.06], 'rho': 0.7,
                                         'q': float(np.sqrt(1 - 0.49))},
                prior='func', blobs='none', vectorized=True, lo=[0.0] * 3, hi=[1.0] * 3)
    base = dict(n_update=None, n_like_new_bound=None, enlarge_per_dim=1.1, split_threshold=100.0, n_points_min=None,
                periodic=None, pool='none', filepath=False, f_live=0.01, n_shell=1, n_batch=100)
    P.append(('gauss2-discard', g2, dict(base, n_live=400, n_networks=0, n_eff=3000, discard_exploration=True)))
    P.append(('plateau-net-discard', plat, dict(base, n_live=400, n_networks=1, n_eff=2000, discard_exploration=True)))
    P.append(('periodic-discard', per, dict(base, n_live=400, n_networks=0, n_eff=3000, discard_exploration=True,
                                            periodic=[0])))
    # mass against the prior edge + sampler pool: the pool path merges the workers' proposal/rejection counters of both
    # levels, and the cube-clipped outer union is where a forgotten counter shows up as a biased volume
    P.append(('plateau-spool-discard', plat, dict(base, n_live=400, n_networks=0, n_eff=2000, discard_exploration=True,
                                                  pool='s2')))
    if tier == 'thorough':
        P.append(('gauss2-kept', g2, dict(base, n_live=400, n_networks=0, n_eff=3000, discard_exploration=False)))
        P.append(('mixture3-discard', mix, dict(base, n_live=500, n_networks=0, n_eff=3000, discard_exploration=True)))
        P.append(('corr3-net-spool-discard', corr, dict(base, n_live=400, n_networks=1, n_eff=2000,
                                                        discard_exploration=True, pool='s2')))
    V = []
    fun = dict(family='funnel', d=2, par={'a': 12.0, 's0': 0.1}, prior='func', blobs='none', vectorized=True,
               lo=[0.0, 0.0], hi=[1.0, 1.0])
    ring = dict(family='ring', d=2, par={'r0': 0.3, 'w': 0.03}, prior='func', blobs='none', vectorized=True,
                lo=[0.0, 0.0], hi=[1.0, 1.0])
    V.append(('vol-funnel', fun, dict(base, n_live=300, n_networks=0, n_eff=0, discard_exploration=True)))
    V.append(('vol-periodic', per, dict(base, n_live=300, n_networks=0, n_eff=0, discard_exploration=True, periodic=[0])))
    if tier == 'thorough':
        V.append(('vol-ring-net', ring, dict(base, n_live=300, n_networks=1, n_eff=0, discard_exploration=True)))
        V.append(('vol-plateau', plat, dict(base, n_live=300, n_networks=0, n_eff=0, discard_exploration=True)))
        V.append(('vol-mixture', mix, dict(base, n_live=300, n_networks=0, n_eff=0, discard_exploration=True)))
    return P, V


def gen_cases(tier, seed):
    N = 40 if tier == 'quick' else 96
    NV = 24 if tier == 'quick' else 48
    P, V = _problems(tier)
    cases = []
    for name, pspec, cfg in P:
        for m in range(N):
            rng = env.case_rng(ID, len(cases), seed)
            cases.append({'i': len(cases), 'seed': seed, 'ensemble': name, 'kind': 'evidence', 'prob': pspec,
                          'cfg': dict(cfg, seed=int(rng.integers(2 ** 31)))})
    for name, pspec, cfg in V:
        for m in range(NV):
            rng = env.case_rng(ID, len(cases), seed)
            cases.append({'i': len(cases), 'seed': seed, 'ensemble': name, 'kind': 'volume', 'prob': pspec,
                          'cfg': dict(cfg, seed=int(rng.integers(2 ** 31)))})
    return cases


def run_case(spec):
    prob = workloads.Problem(spec['prob'])
    cfg = spec['cfg']
    obs = dict(runs_converged=0, n_like=0)
    s = workloads.make_sampler(prob, cfg)
    try:
        with warnings.catch_warnings(), np.errstate(all='ignore'):
            warnings.simplefilter('ignore')
            from ..instrument import Hooks, VirtualClock
            if spec['kind'] == 'evidence':
                with Hooks([], proposal_budget=60_000_000, clock=VirtualClock()):
                    ok = s.run(**workloads.run_kwargs(cfg, n_like_max=400000))
                if not ok:
                    return {'status': 'ok', 'obs': obs, 'nontrivial': False, 'member': None, 'key': 'm%d' % spec['i']}
                pts, log_w, _ = s.posterior()
                w = np.exp(log_w)
                mean = np.sum(pts * w[:, None], axis=0)
                var = np.sum((pts - mean) ** 2 * w[:, None], axis=0)
                member = dict(log_z=float(s.log_z), n_eff=float(s.n_eff), mean=mean.tolist(), var=var.tolist(),
                              n_like=int(s.n_like), n_bounds=len(s.bounds))
            else:
                with Hooks([], proposal_budget=60_000_000, clock=VirtualClock()):
                    ok = s.run(f_live=cfg['f_live'], n_shell=0, n_eff=0, discard_exploration=True, n_like_max=400000)
                if not ok or not s.explored:
                    return {'status': 'ok', 'obs': obs, 'nontrivial': False, 'member': None, 'key': 'm%d' % spec['i']}
                with Hooks([], proposal_budget=30_000_000):
                    for i in range(len(s.bounds)):
                        for _ in range(10):
                            s.add_samples(i)
                v = np.exp(np.asarray(s.shell_log_v, dtype=float))
                cnt = np.asarray(s.shell_n, dtype=float)
                prop = np.asarray(s.shell_n_sample - s.shell_n_sample_exp, dtype=float)
                p = cnt / prop
                member = dict(sum_v=float(np.sum(v)), bias_allow=float(np.sum(v * (1 - p) * 2 / cnt)),
                              n_bounds=len(s.bounds), n_like=int(s.n_like), p_min=float(np.min(p)))
        obs['runs_converged'] = 1
        obs['n_like'] = int(s.n_like)
        return {'status': 'ok', 'obs': obs, 'nontrivial': True, 'member': member, 'key': 'm%d' % spec['i']}
    except workloads.BudgetExceeded as e:
        return {'status': 'skipped', 'reason': str(e), 'obs': obs}
    except np.linalg.LinAlgError as e:
        return {'status': 'skipped', 'reason': repr(e), 'obs': obs}
    finally:
        workloads.close_sampler(s)


def _t(n):
    return float(stats.t.isf(P_T, n - 1))


def aggregate(specs, results, tier):
    groups = {}
    for sp, r in zip(specs, results):
        groups.setdefault(sp['ensemble'], []).append((sp, r))
    viols, samples = [], []
    complete = 0
    obs = {}
    for name, items in groups.items():
        sp0 = items[0][0]
        members = [r.get('member') for _, r in items if r.get('status') == 'ok' and r.get('member')]
        n_all = len(items)
        N = len(members)
        if N < n_all or N < 8:
            obs['ensemble_incomplete:' + name] = n_all - N
            continue
        complete += 1
        tq = _t(N)
        summ = {'ensemble': name, 'N': N, 't_bound': round(tq, 2)}
        if sp0['kind'] == 'evidence':
            prob = workloads.Problem(sp0['prob'])
            truth = prob.analytic_log_z()
            d = np.array([m['log_z'] for m in members]) - truth
            sig = 1 / np.sqrt(np.array([m['n_eff'] for m in members]))
            se = max(np.std(d, ddof=1) / np.sqrt(N), np.median(sig) / np.sqrt(N))
            delta = DELTA if sp0['cfg']['discard_exploration'] else DELTA_KEPT
            bound = delta + tq * se
            summ.update(mean_offset=float(np.mean(d)), se=float(se), bound=float(bound), truth=truth,
                        std_pull=float(np.std(d / sig, ddof=1)))
            if abs(np.mean(d)) > bound:
                viols.append(dict(key='accuracy.log_z-systematic-offset', spec=None,
                                  what='%s: mean(log_z - truth) = %+.4f over %d seeds, bound %.4f (se %.4f)'
                                  % (name, np.mean(d), N, bound, se), ensemble=name))
            cal = 1.5 * np.sqrt(stats.chi2.isf(P_CHI, N - 1) / (N - 1))
            summ['pull_bound'] = float(cal)
            if np.std(d / sig, ddof=1) > cal:
                viols.append(dict(key='accuracy.log_z-scatter-exceeds-reported-error', spec=None,
                                  what='%s: std((log_z-truth)*sqrt(n_eff)) = %.2f over %d seeds, bound %.2f'
                                  % (name, np.std(d / sig, ddof=1), N, cal), ensemble=name))
            mom = prob.analytic_moments()
            if mom is not None:
                mu, var = mom
                width = np.sqrt(var)
                means = np.array([m['mean'] for m in members])
                vars_ = np.array([m['var'] for m in members])
                for k in range(len(mu)):
                    dm = (means[:, k] - mu[k]) / width[k]
                    b = 0.005 + tq * np.std(dm, ddof=1) / np.sqrt(N)
                    if abs(np.mean(dm)) > b:
                        viols.append(dict(key='accuracy.posterior-mean-offset', spec=None, ensemble=name,
                                          what='%s: posterior mean of coordinate %d is off by %+.4f widths (bound %.4f)'
                                          % (name, k, np.mean(dm), b)))
                    dv = vars_[:, k] / var[k] - 1
                    b = 0.02 + tq * np.std(dv, ddof=1) / np.sqrt(N)
                    if abs(np.mean(dv)) > b:
                        viols.append(dict(key='accuracy.posterior-variance-offset', spec=None, ensemble=name,
                                          what='%s: posterior variance of coordinate %d is off by %+.3f (relative, '
                                          'bound %.3f)' % (name, k, np.mean(dv), b)))
                summ['mean_offsets_in_widths'] = np.mean((means - mu) / width, axis=0).round(5).tolist()
        else:
            x = np.array([m['sum_v'] for m in members]) - 1
            allow = float(np.mean([m['bias_allow'] for m in members]))
            se = np.std(x, ddof=1) / np.sqrt(N)
            bound = allow + tq * se
            summ.update(mean_sum_v_minus_1=float(np.mean(x)), se=float(se), bias_allow=allow, bound=float(bound),
                        p_min=float(min(m['p_min'] for m in members)))
            if abs(np.mean(x)) > bound:
                viols.append(dict(key='accuracy.shell-volumes-do-not-sum-to-one', spec=None, ensemble=name,
                                  what='%s: mean(sum of shell volumes - 1) = %+.4f over %d seeds, bound %.4f'
                                  % (name, np.mean(x), N, bound)))
            if np.any(np.abs(x) > 0.5):
                viols.append(dict(key='accuracy.shell-volumes-gross', spec=None, ensemble=name,
                                  what='%s: a run reports a total shell volume of %.3f' % (name, 1 + x[np.argmax(np.abs(x))])))
        samples.append(summ)
    obs['ensembles_complete'] = complete
    out = dict(violations=viols, samples=samples, distinct_nontrivial=complete, obs=obs,
               coverage={'ensembles': samples})
    if complete < 2:
        out['inconclusive'] = 'fewer than two complete ensembles'
    return out
