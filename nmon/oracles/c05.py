"""C05 - stopping and resuming at any batch boundary does not change the result.

Differential monitor: one uninterrupted seeded run is the reference; the same computation is cut
at EVERY batch boundary (in memory, and through the checkpoint file into a new Sampler object,
partly in a fresh process) and must end bit-identical, with no point evaluated twice.
"""
import json
import os
import shutil
import subprocess
import sys
import warnings

import numpy as np

from . import samplercase
from .. import drive, env, workloads
from ..instrument import Hooks, VirtualClock, result_digest

ID = 'C05'
LEVEL = 'exploration'
DECIDING = 'resumes_compared'
CHUNK = {'quick': 1, 'thorough': 1}
TIMEOUT = 3000
R = 8
BUDGET = 30_000_000      # proposals; a cut run that needs more than this while the reference finished is a difference
FAMILIES = ['gauss', 'mixture', 'periodic', 'funnel', 'plateau', 'corr', 'ring', 'islands']
RULE = ('three kinds of case on small seeded runs (K = 20..90 batches; networks 0/1, periodic, every blob dtype, '
        'discard_exploration, vectorised, Prior object or function). (every_k) reference = one uninterrupted run; the '
        'run is repeated (for odd residues on a path that already holds the finished checkpoint of an earlier run, with '
        'resume=False) as run(n_like_max = k*n_batch) for EVERY k = 1..K with the checkpoint copied after each '
        'return; for every k in this case\'s residue class (k mod 8) a NEW Sampler object (a fresh interpreter for '
        'two of them) is built from copy k and run to completion; sliced and resumed digests (posterior arrays, log_z, '
        'n_eff, n_like) must equal the reference and no unit point may be evaluated both before and after the cut (the '
        'one-update-per-bound configuration, K ~ 190, resumes every fourth exploration boundary and every sampling one). '
        '(multi) random sequences of stops (multiples and non-multiples of n_batch, virtual-clock timeouts) and resumes. '
        '(toggle) a history with discard_exploration toggles executed in one piece and again with a resume after every '
        'step. Non-trivial = distinct (configuration, k) pairs resumed and compared (+ completed multi/toggle '
        'histories); the evidence splits them by phase (exploration, bound-insertion boundary, end of exploration, '
        'sampling). Every second configuration additionally runs in a "deep" variant (few bounds, n_shell = 1300, so that '
        'every bound refills its proposal cache after the last full write) cut at every fourth boundary.')
ASSUMPTIONS = ['a stop is a return of run(); file states that exist only between two writes inside one loop '
               'iteration are C06 (validity), not C05 (bit-identity)',
               'requires determinism for a fixed seed (C11)']


QUICK_RESUMES = 4


def gen_cases(tier, seed):
    n_cfg = 4 if tier == 'quick' else 40
    cases = []
    for j in range(n_cfg):
        rng = env.case_rng(ID, j, seed)
        pspec = workloads.gen_problem(rng, family=FAMILIES[j % len(FAMILIES)],
                                      blobs=workloads.BLOBS[(3 * j + 1) % len(workloads.BLOBS)],
                                      prior=workloads.PRIORS[(2 * j) % len(workloads.PRIORS)], vectorized=bool(j % 2))
        cfg = workloads.gen_cfg(rng, pspec, pool='none', n_batch=[50, 16, 100, 50][j % 4], filepath=True,
                                networks=[0, 1, 0, 0, 1, 0, 2, 0][j % 8])
        cfg.update(n_live=int(rng.choice([80, 120, 160])), n_eff=int(rng.choice([200, 400])),
                   f_live=float(rng.choice([0.05, 0.2])), n_shell=int(rng.choice([1, 1, cfg['n_batch'] + 1])),
                   discard_exploration=bool(j % 3 == 0))
        if cfg['n_batch'] == 16:
            cfg['n_live'] = 60
        if tier == 'quick':
            cfg['n_eff'] = min(cfg['n_eff'], 250)
            cfg['n_shell'] = 1 if j % 4 == 0 else cfg['n_shell']
            if j % 4 == 0:
                cfg.update(f_live=0.2, n_live=min(cfg['n_live'], 100))
        if j % 4 == 3:
            # one update per bound (tests/test_sampler.py::test_sampler_empty_shells): empty shells, often the first
            # one, are removed at the end of exploration; the checkpoint must restore what is left
            cfg.update(n_update=1, n_live=10, n_batch=2, f_live=0.05, n_networks=0, n_eff=20, n_shell=1,
                       n_like_new_bound=None, n_points_min=None, enlarge_per_dim=2.0, periodic=None)
        base = {'seed': seed, 'prob': pspec, 'cfg': cfg, 'j': j}
        for r in (range(R) if tier == 'thorough' else (0, 3, 5, 6)):    # quick: half of the residue classes of k mod R
            cases.append(dict(base, kind='every_k', residue=r, i=len(cases)))
        if j % 2 == 0:
            # few bounds, many samples per shell (n_shell = 1300): every bound has to refill its proposal cache - and the
            # cache of its outer union - several times after the last full checkpoint write
            deep = dict(cfg, f_live=0.3, n_shell=1300, n_eff=100, n_batch=100, n_live=150, n_update=None,
                        n_like_new_bound=None, periodic=cfg['periodic'])
            if deep['n_update'] == 1:
                deep.update(enlarge_per_dim=1.1, n_points_min=None)
            for r in range(4):
                cases.append(dict(base, cfg=deep, kind='every_k', residue=r, R=4, deep=True, i=len(cases)))
        if j % 4 == 1:
            # sampler pool and > 10 000 points per shell: the pool path refills the proposal caches after the cut; whatever
            # it needs for that must come out of the checkpoint
            ppool = workloads.gen_problem(rng, family='gauss', d=2, prior='func', blobs='float', vectorized=True)
            cpool = workloads.gen_cfg(rng, ppool, pool='s2', n_batch=500, networks=0, filepath=True)
            cpool.update(n_live=200, f_live=0.3, n_shell=12000, n_eff=100, n_update=None, n_like_new_bound=None,
                         periodic=None, discard_exploration=False)
            for r in range(4):
                cases.append(dict(base, prob=ppool, cfg=cpool, kind='every_k', residue=r, R=4, deep=True, stride=3,
                                  i=len(cases)))
        if j % 4 == 2:
            # sixteen separated modes and split_threshold=1: the outer unions of the bounds hold more than ten ellipsoids,
            # each with its own record in the checkpoint; the resumed sampler must get them back in the same order
            pmany = workloads.gen_problem(rng, family='mixture', d=2, prior='func', blobs='none', vectorized=True)
            lo, w = np.array(pmany['lo']), np.array(pmany['hi']) - np.array(pmany['lo'])
            grid = [(0.14 + 0.24 * a + float(rng.uniform(-0.02, 0.02)), 0.14 + 0.24 * b + float(rng.uniform(-0.02, 0.02)))
                    for a in range(4) for b in range(4)]
            pmany['par'] = dict(pmany['par'], mus=[(lo + w * np.array(g)).tolist() for g in grid],
                                sigs=[(w * 0.012).tolist() for _ in grid])
            cmany = workloads.gen_cfg(rng, pmany, pool='none', n_batch=100, networks=0, filepath=True)
            cmany.update(n_live=800, f_live=0.05, n_shell=1, n_eff=1500 if tier == 'quick' else 5000, n_update=None,
                         n_like_new_bound=None, periodic=None, discard_exploration=False, split_threshold=1.0,
                         n_points_min=20, enlarge_per_dim=1.1)
            for r in range(1 if tier == 'quick' else 4):
                cases.append(dict(base, prob=pmany, cfg=cmany, kind='every_k', residue=r, R=4, deep=True, stride=6,
                                  many=True, i=len(cases)))
        cases.append(dict(base, kind='multi', i=len(cases)))
        cases.append(dict(base, kind='toggle', i=len(cases)))
    return cases


class EvalLog:
    def __init__(self):
        self.rows = []          # bytes of every unit point, in evaluation order
        self.driver = None

    def on_before_eval(self, s, points):
        self.rows.extend(r.tobytes() for r in np.asarray(points, dtype=float))


def _kw(cfg, **over):
    return workloads.run_kwargs(cfg, **over)


def _phase(s, cfg):
    if s.explored:
        if sum(len(p) for p in s.points) == int(np.sum(s.shell_end_exp)):
            return 'end_of_exploration'
        return 'sampling'
    if ((s.n_update_iter >= s.n_update or s.n_like_iter >= s.n_like_new_bound) and np.sum(s.shell_n) > s.n_live):
        return 'bound_insertion_next'
    return 'exploration'


CHILD = r'''
import json, sys, warnings
import numpy as np
sys.path.insert(0, %(verif)r)
from nmon import env
env.use_repo()
from nmon import workloads
from nmon.instrument import result_digest
warnings.simplefilter('ignore')
spec = json.load(open(sys.argv[1]))
prob = workloads.Problem(spec['prob'])
s = workloads.make_sampler(prob, spec['cfg'], filepath=sys.argv[2], resume=True)
n0 = int(s.n_like)
with np.errstate(all='ignore'):
    ok = s.run(**workloads.run_kwargs(spec['cfg'], n_like_max=spec['cap']))
print(json.dumps(dict(digest=result_digest(s), ok=bool(ok), n_like=int(s.n_like), n0=n0)))
'''


def _resume_in_child(spec, cap, path, scratch):
    sp = os.path.join(scratch, 'child-spec.json')
    json.dump({'prob': spec['prob'], 'cfg': spec['cfg'], 'cap': cap}, open(sp, 'w'))
    p = subprocess.run([env.PY, '-c', CHILD % {'verif': env.VERIF}, sp, path], capture_output=True, text=True,
                       timeout=900, env=env.child_env())
    for line in p.stdout.splitlines():
        if line.startswith('{'):
            return json.loads(line)
    raise RuntimeError('child failed: ' + p.stderr[-800:])


def run_case(spec):
    cfg = spec['cfg']
    nb = cfg['n_batch']
    cap = 60 * nb + 40 * cfg['n_live'] + (1500 if cfg['n_update'] == 1 else 0) + (40000 if spec.get('deep') else 0) + (150000 if spec.get('stride') else 0)
    RR = spec.get('R', R)
    obs = dict(resume_points_thinned=0, union_members_max=0, started_over_stale_file=0, resumes_compared=0, sliced_runs_compared=0, batches_in_reference_max=0, fresh_process_resumes=0,
               phase={'exploration': 0, 'bound_insertion_next': 0, 'end_of_exploration': 0, 'sampling': 0},
               points_checked_for_double_evaluation=0, multi_histories=0, toggle_histories=0, stops=0)
    viols = []
    n_nontrivial = 0

    def bad(key, what, **kw):
        if key not in [v['key'] for v in viols]:
            viols.append(dict(key=key, what=what, case=samplercase.case_key(spec), kind=spec['kind'], **kw))

    def code_raise(e):
        if isinstance(e, workloads.BudgetExceeded):
            return 'did not finish although the uninterrupted reference did: %s' % e
        frames = __import__('traceback').extract_tb(e.__traceback__)
        if not any(f.filename.startswith(env.REPO + '/') for f in frames) or frames[-1].filename.startswith(env.VERIF + '/'):
            raise e
        return drive.describe_exc(e)

    with env.Scratch('nmon-c05') as scratch, warnings.catch_warnings(), np.errstate(all='ignore'):
        warnings.simplefilter('ignore')
        # ---------------- reference: one uninterrupted run
        prob = workloads.Problem(spec['prob'])
        ref = workloads.make_sampler(prob, cfg, filepath=os.path.join(scratch, 'ref.hdf5'), resume=False)
        try:
            with Hooks([], proposal_budget=BUDGET, clock=VirtualClock()):
                ok = ref.run(**_kw(cfg, n_like_max=cap))
        except (np.linalg.LinAlgError, workloads.BudgetExceeded) as e:
            return {'status': 'skipped', 'reason': 'reference run: %r' % e, 'obs': obs}
        if not ok:
            return {'status': 'skipped', 'reason': 'reference did not converge within %d evaluations' % cap, 'obs': obs}
        d_ref, n_ref = result_digest(ref), int(ref.n_like)
        K = n_ref // nb
        obs['batches_in_reference_max'] = K
        obs['union_members_max'] = max([len(b.outer_bound.bounds) for b in ref.bounds if hasattr(b, 'outer_bound')] or [0])

        if spec['kind'] == 'every_k':
            # ------------ in-memory slicing at every batch boundary, copying the checkpoint each time
            prob = workloads.Problem(spec['prob'])
            path = os.path.join(scratch, 'sliced.hdf5')
            if spec['residue'] % 2 == 1:
                # the path already holds the finished checkpoint of an earlier run; resume=False is documented to start
                # from scratch and overwrite it
                shutil.copyfile(os.path.join(scratch, 'ref.hdf5'), path)
                obs['started_over_stale_file'] = 1
            log = EvalLog()
            copies = {}
            with Hooks([log], proposal_budget=BUDGET, clock=VirtualClock()):
                s = workloads.make_sampler(prob, cfg, filepath=path, resume=False)
                k = 0
                # quick tier: a run of many hundred tiny batches is cut at every boundary up to the 100th and then at
                # every step-th (step odd, so that all residue classes keep occurring)
                step = (max(1, K // 100) | 1) if (env.tier() == 'quick' and K > 200) else 1
                try:
                    while True:
                        k += 1 if k < 100 else step
                        done = s.run(**_kw(cfg, n_like_max=k * nb))
                        obs['stops'] += 1
                        thin = (cfg['n_update'] == 1 and not s.explored and (k // RR) % 4 != 0) or \
                            (spec.get('stride') and (k // RR) % spec['stride'] != 0)
                        if k % RR == spec['residue'] and not done and not thin:
                            cp = os.path.join(scratch, 'copy-%d.hdf5' % k)
                            shutil.copyfile(path, cp)
                            copies[k] = (cp, _phase(s, cfg), len(log.rows), int(s.n_like))
                        if done or k > K + 5:
                            break
                except Exception as e:
                    bad('resume.raise.sliced.%s' % type(e).__name__, 'sliced run raised ' + code_raise(e), k=k)
            obs['sliced_runs_compared'] += 1
            if not viols and (result_digest(s), int(s.n_like)) != (d_ref, n_ref):
                bad('resume.sliced-run-differs', 'run(n_like_max=k*n_batch) for every k gives a different result than '
                    'one uninterrupted run (n_like %d vs %d)' % (int(s.n_like), n_ref))
            # ------------ resume from every kept copy (quick tier: at most QUICK_RESUMES per case, evenly spaced over
            # the run, so that one configuration with many batches cannot make the per-change check take an hour)
            if env.tier() == 'quick' and len(copies) > QUICK_RESUMES:
                ks = sorted(copies)
                keep = {ks[int(round(t))] for t in np.linspace(0, len(ks) - 1, QUICK_RESUMES)}
                obs['resume_points_thinned'] = len(ks) - len(keep)
                copies = {k: v for k, v in copies.items() if k in keep}
            for idx, (k, (cp, phase, n_before, n_like_k)) in enumerate(sorted(copies.items())):
                if viols:
                    break
                if idx < 2:      # fresh interpreter: nothing of the earlier runs is in process-global state
                    try:
                        out = _resume_in_child(spec, cap, cp, scratch)
                    except RuntimeError as e:
                        bad('resume.raise.child', 'resuming from the copy after batch %d in a fresh process failed: %s'
                            % (k, str(e)[-400:]), k=k, phase=phase)
                        break
                    obs['fresh_process_resumes'] += 1
                    got = (out['digest'], out['n_like'])
                    n0 = out['n0']
                else:
                    prob2 = workloads.Problem(spec['prob'])
                    log2 = EvalLog()
                    try:
                        with Hooks([log2], proposal_budget=BUDGET, clock=VirtualClock()):
                            s2 = workloads.make_sampler(prob2, cfg, filepath=cp, resume=True)
                            n0 = int(s2.n_like)
                            s2.run(**_kw(cfg, n_like_max=cap))
                        got = (result_digest(s2), int(s2.n_like))
                    except Exception as e:
                        bad('resume.raise.%s' % type(e).__name__, 'sampler resumed from the copy after batch %d (%s) '
                            'raised %s' % (k, phase, code_raise(e)), k=k, phase=phase)
                        break
                    before = set(log.rows[:n_before])
                    obs['points_checked_for_double_evaluation'] += len(log2.rows)
                    twice = sum(1 for r in log2.rows if r in before)
                    if twice:
                        bad('resume.point-evaluated-twice', '%d unit points evaluated before the stop at batch %d were '
                            'evaluated again after the resume' % (twice, k), k=k, phase=phase)
                    if n0 + len(log2.rows) != got[1]:
                        bad('resume.n_like-not-stored-plus-new', 'resumed at n_like=%d, evaluated %d points, reports %d'
                            % (n0, len(log2.rows), got[1]), k=k, phase=phase)
                obs['resumes_compared'] += 1
                obs['phase'][phase] += 1
                n_nontrivial += 1
                if n0 != n_like_k:
                    bad('resume.n_like-not-restored', 'copy after batch %d holds n_like=%d but the resumed sampler starts '
                        'at %d' % (k, n_like_k, n0), k=k, phase=phase)
                if got != (d_ref, n_ref):
                    bad('resume.result-differs.' + phase, 'resuming from the checkpoint written after batch %d of %d '
                        '(%s) ends with a different result than the uninterrupted run (n_like %d vs %d)'
                        % (k, K, phase, got[1], n_ref), k=k, phase=phase)

        elif spec['kind'] == 'multi':
            rng = env.case_rng(ID, 50_000 + spec['j'], spec['seed'])
            for rep in range(3):
                prob = workloads.Problem(spec['prob'])
                path = os.path.join(scratch, 'multi-%d.hdf5' % rep)
                clock = VirtualClock()
                ops = []
                try:
                    with Hooks([], proposal_budget=BUDGET, clock=clock):
                        s = workloads.make_sampler(prob, cfg, filepath=path, resume=False)
                        for step in range(400):
                            r = rng.random()
                            if r < 0.45:
                                lim = int(s.n_like + rng.integers(1, 6 * nb))
                                done = s.run(**_kw(cfg, n_like_max=min(lim, cap)))
                                ops.append(['n_like_max', lim])
                            elif r < 0.6:
                                t = float(rng.choice([2, 3, 5.5]))
                                done = s.run(**_kw(cfg, n_like_max=cap, timeout=t))
                                ops.append(['timeout', t])
                            else:
                                workloads.close_sampler(s)
                                s = workloads.make_sampler(prob, cfg, filepath=path, resume=True)
                                ops.append(['resume'])
                                done = False
                            obs['stops'] += 1
                            if done:
                                break
                        else:
                            done = s.run(**_kw(cfg, n_like_max=cap))
                except Exception as e:
                    bad('resume.raise.%s' % type(e).__name__, 'stop/resume history raised ' + code_raise(e), ops=ops[-6:])
                    break
                obs['multi_histories'] += 1
                n_nontrivial += 1
                if (result_digest(s), int(s.n_like)) != (d_ref, n_ref):
                    bad('resume.multi-stop-differs', 'a sequence of %d stops/resumes ends with a different result than '
                        'the uninterrupted run (n_like %d vs %d)' % (len(ops), int(s.n_like), n_ref), ops=ops[-8:])
                    break

        else:   # toggle: same history in one piece and with a resume after every step
            rng = env.case_rng(ID, 60_000 + spec['j'], spec['seed'])
            steps = [['finish']]
            for _ in range(int(rng.integers(2, 6))):
                steps.append(['toggle'])
                steps.append(['more', int(rng.choice([nb, 2 * nb, 4 * nb]))])
            digs = {}
            for mode in ('one_piece', 'resumed'):
                prob = workloads.Problem(spec['prob'])
                path = os.path.join(scratch, 'toggle-%s.hdf5' % mode)
                s = workloads.make_sampler(prob, cfg, filepath=path, resume=False)
                guard = Hooks([], proposal_budget=BUDGET, clock=VirtualClock())
                guard.__enter__()
                try:
                    for st in steps:
                        if st[0] == 'finish':
                            s.run(**_kw(cfg, n_like_max=cap))
                        elif st[0] == 'toggle':
                            s.discard_exploration = not s.discard_exploration
                        else:
                            s.run(**_kw(cfg, n_like_max=int(s.n_like) + st[1], n_eff=10 ** 9,
                                        discard_exploration=bool(s.discard_exploration)))
                        if mode == 'resumed' and st[0] != 'toggle':
                            flag = bool(s.discard_exploration)
                            workloads.close_sampler(s)
                            s = workloads.make_sampler(prob, cfg, filepath=path, resume=True)
                            if bool(s.discard_exploration) != flag:
                                bad('ckpt.discard-flag-not-in-shell-update', 'after %r the checkpoint restores '
                                    'discard_exploration=%s, the live sampler had %s' % (st, s.discard_exploration, flag))
                    digs[mode] = (result_digest(s), int(s.n_like))
                except Exception as e:
                    bad('resume.raise.toggle.%s' % type(e).__name__, 'toggle history (%s) raised %s' % (mode, code_raise(e)),
                        steps=steps)
                    break
                finally:
                    guard.__exit__(None, None, None)
                    workloads.close_sampler(s)
            if len(digs) == 2:
                obs['toggle_histories'] += 1
                n_nontrivial += 1
                if digs['one_piece'] != digs['resumed']:
                    bad('resume.toggle-history-differs', 'a history with discard_exploration toggles ends differently '
                        'when the sampler is resumed from its checkpoint after every step (n_like %d vs %d)'
                        % (digs['resumed'][1], digs['one_piece'][1]), steps=steps)
    res = {'obs': obs, 'nontrivial': n_nontrivial > 0, 'nontrivial_count': n_nontrivial,
           'key': '%s|%s|%s' % (samplercase.case_key(spec), spec['kind'], spec.get('residue')),
           'sample': {'kind': spec['kind'], 'K': K, 'residue': spec.get('residue')}}
    if viols:
        res.update(status='violation', violations=viols)
    else:
        res['status'] = 'ok'
    return res
