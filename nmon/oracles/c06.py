"""C06 - a kill at any instant leaves an atomic, loadable checkpoint.

Fault enumeration on the real process: the checkpointed run executes in a child python under
strace; a census run lists every state-changing system call on the checkpoint path (and its
temporary); for every such call a kill run delivers SIGKILL at exactly that call; the leftover
file is compared with the states the run had completely written, and a new process continues
from it under the C01/C02 invariant hooks.
"""
import hashlib
import json
import os
import re
import shutil
import subprocess
import warnings

import numpy as np

from . import samplercase
from .. import env, workloads
from .c09 import h5_tree

ID = 'C06'
LEVEL = 'fault_enumeration'
DECIDING = 'kills_delivered'
CHUNK = {'quick': 1, 'thorough': 1}
TIMEOUT = {'quick': 900, 'thorough': 3000}
SYSCALLS = ['openat', 'pwrite64', 'write', 'ftruncate', 'unlink', 'unlinkat', 'rename', 'renameat', 'renameat2',
            'sendfile', 'copy_file_range', 'close', 'fsync', 'fdatasync']
N_CASES = 16
RULE = ('a crash point is (system call name, n): the n-th call of that name that touches the checkpoint file or its '
        'temporary (strace -P), for every name in ' + ', '.join(SYSCALLS) + '. A census run under strace counts them and '
        'copies every completely written checkpoint state; a kill run per crash point injects SIGKILL at that call '
        '(strace -e inject=<call>:signal=SIGKILL:when=n). The leftover file must be loadable with logical content (all '
        'groups, datasets, attributes) equal to the last completed state or the one being written (no file at all only '
        'before the first checkpoint completed), the survivor\'s side log must match the census (determinism), and a '
        'new process resumed from the leftover file must finish under the C01/C02 hooks. thorough = ALL crash points '
        'of each configuration (exhaustive per run); quick = a stratified sample (every call name, first/last call of '
        'checkpoint writes, uniform rest). Besides plain paths the checkpoint is also given as a relative symbolic link '
        'into another directory, on a file system other than the temporary directory\'s (if one is writable) and (thorough) '
        'inside a directory that does not exist yet. Non-trivial = distinct crash points whose kill landed strictly inside a '
        'checkpoint write (BEGIN logged, END not).')
ASSUMPTIONS = ['process death only (SIGKILL, page cache survives); power loss / kernel crash is out of reach',
               'strace injects the signal on entry of the n-th matching call, i.e. the state after call n-1',
               'the child copies every completed state aside (reads of the checkpoint appear as extra crash points '
               'between checkpoints, which is harmless)']


def _configs(tier):
    out = []
    n = 1 if tier == 'quick' else 3
    for j in range(n):
        rng = np.random.default_rng([6, j])
        p = workloads.gen_problem(rng, family=['gauss', 'periodic', 'mixture'][j], d=2,
                                  prior=['func', 'Prior_dict', 'func_inplace'][j],
                                  blobs=['float', 'none', 'struct'][j], vectorized=bool(j % 2 == 0))
        c = workloads.gen_cfg(rng, p, pool='none', n_batch=50, networks=[0, 1, 0][j], filepath=True)
        c.update(n_live=60, n_eff=[150, 120, 150][j], f_live=0.2, n_shell=1, discard_exploration=bool(j == 2),
                 n_update=None, n_like_new_bound=None)
        out.append({'prob': p, 'cfg': c, 'cap': 4000, 'layout': 'plain'})
    # the same first configuration with the checkpoint path being a (dangling, relative) symbolic link into
    # another directory, and in a directory that does not exist yet
    out.append(dict(out[0], layout='symlink'))
    if tier != 'quick':
        out.append(dict(out[0], layout='nested'))
    # checkpoint on a different file system than the system temporary directory (node-local scratch vs shared storage
    # on a cluster): anything that stages the new file elsewhere and "moves" it degenerates into a non-atomic copy
    if _other_fs_dir() is not None:
        out.append(dict(out[0], layout='otherfs'))
    return out


def _other_fs_dir():
    import tempfile
    try:
        here = os.stat(tempfile.gettempdir()).st_dev
        for cand in ('/dev/shm', '/run/shm', os.path.expanduser('~'), '/var/tmp', env.VERIF):
            if os.path.isdir(cand) and os.access(cand, os.W_OK) and os.stat(cand).st_dev != here:
                return cand
    except OSError:
        pass
    return None


def _layout(d, layout):
    """Checkpoint path inside run directory d for a layout, and every path strace has to watch."""
    if layout == 'symlink':
        os.makedirs(os.path.join(d, 'store'))
        ck = os.path.join(d, 'ck.hdf5')
        os.symlink(os.path.join('store', 'real.hdf5'), ck)
        real = os.path.join(d, 'store', 'real.hdf5')
        return ck, [ck, ck + '.tmp', real, real + '.tmp']
    if layout == 'nested':
        ck = os.path.join(d, 'a', 'b', 'ck.hdf5')
        return ck, [ck, ck + '.tmp']
    if layout == 'otherfs':
        import tempfile
        base = tempfile.mkdtemp(prefix='nmon-c06-', dir=_other_fs_dir())
        open(os.path.join(d, 'otherfs-dir'), 'w').write(base)       # removed together with the run directory
        ck = os.path.join(base, 'ck.hdf5')
        return ck, [ck, ck + '.tmp']
    ck = os.path.join(d, 'ck.hdf5')
    return ck, [ck, ck + '.tmp']


def gen_cases(tier, seed):
    cases = []
    for j, conf in enumerate(_configs(tier)):
        for c in range(N_CASES):
            cases.append({'i': len(cases), 'seed': seed, 'conf': conf, 'j': j, 'part': c, 'parts': N_CASES, 'tier': tier})
    return cases


def _cleanup_otherfs(d):
    f = os.path.join(d, 'otherfs-dir')
    if os.path.exists(f):
        shutil.rmtree(open(f).read().strip(), ignore_errors=True)


def _strace(args, spec_path, ckpt, watch, side, statedir, trace_out, timeout=600):
    cmd = ['strace', '-f', '-o', trace_out] + [x for w in watch for x in ('-P', w)] + args + \
          [env.PY, '-m', 'nmon.crash_child', spec_path, ckpt, side, statedir]
    return subprocess.run(cmd, capture_output=True, text=True, timeout=timeout, env=env.child_env(), cwd=env.VERIF)


def _side(path):
    ends, begins, done = [], [], None
    if os.path.exists(path):
        for line in open(path):
            f = line.split()
            if not f:
                continue
            if f[0] == 'BEGIN':
                begins.append((int(f[1]), f[2]))
            elif f[0] == 'END':
                ends.append((int(f[1]), f[2], f[3], f[4], f[5]))
            elif f[0] == 'DONE':
                done = f[1:]
    return begins, ends, done


def _digest_file(path):
    import h5py
    with h5py.File(path, 'r') as f:
        t = h5_tree(f)
    return hashlib.sha256(json.dumps(sorted((k, str(v)) for k, v in t.items())).encode()).hexdigest()


def _continue(conf, path):
    """A new Sampler resumes from the leftover file under the C01/C02 hooks and must finish."""
    from .c01 import PartitionMonitor
    from .c02 import EstimatorMonitor
    from ..instrument import Hooks
    m1, m2 = PartitionMonitor(), EstimatorMonitor()
    prob = workloads.Problem(conf['prob'])
    from ..instrument import VirtualClock
    with Hooks([m1, m2], proposal_budget=30_000_000, clock=VirtualClock()) as h, warnings.catch_warnings(), \
            np.errstate(all='ignore'):
        warnings.simplefilter('ignore')
        s = workloads.make_sampler(prob, conf['cfg'], filepath=path, resume=True)
        h.emit('on_resume', s)
        ok = s.run(**workloads.run_kwargs(conf['cfg'], n_like_max=conf['cap']))
    return bool(ok), m1.viol + m2.viol, int(s.n_like)


def run_case(spec):
    conf = spec['conf']
    obs = dict(kills_delivered=0, crash_points_total_max=0, crash_points_this_case=0, kills_inside_write=0,
               kills_inside_update=0, kills_between_checkpoints=0, kills_before_first_checkpoint=0,
               leftover_equals_last_completed=0, leftover_equals_being_written=0, leftover_absent_allowed=0,
               continuations=0, census_states=0, by_syscall={}, distinct_leftover_states_max=0, not_reached=0)
    viols = []

    def bad(key, what, **kw):
        if key not in [v['key'] for v in viols]:
            viols.append(dict(key=key, what=what, config=spec['j'], layout=conf.get('layout', 'plain'), **kw))

    with env.Scratch('nmon-c06') as scratch:
        sp = os.path.join(scratch, 'spec.json')
        json.dump(conf, open(sp, 'w'))
        # ---------------- census
        cdir = os.path.join(scratch, 'census')
        os.makedirs(os.path.join(cdir, 'states'))
        ckpt, watch = _layout(cdir, conf.get('layout', 'plain'))
        trace = os.path.join(cdir, 'trace.txt')
        p = _strace(['-e', 'trace=' + ','.join(SYSCALLS)], sp, ckpt, watch, os.path.join(cdir, 'side.log'),
                    os.path.join(cdir, 'states'), trace)
        begins, ends, done = _side(os.path.join(cdir, 'side.log'))
        if p.returncode != 0 or done is None or done[0] != '1':
            return {'status': 'error', 'error': 'census run failed rc=%s done=%s: %s' % (p.returncode, done, p.stderr[-600:])}
        counts = {}
        for line in open(trace):
            m = re.match(r'^\d+\s+(\w+)\(', line)
            if m and m.group(1) in SYSCALLS:
                counts[m.group(1)] = counts.get(m.group(1), 0) + 1
        D = {0: None}
        for (j, kind, *_rest) in ends:
            D[j] = _digest_file(os.path.join(cdir, 'states', 'state-%d.hdf5' % j))
        obs['census_states'] = len(ends)
        points = [(sc, n) for sc in SYSCALLS for n in range(1, counts.get(sc, 0) + 1)]
        obs["crash_points_total_max"] = len(points)
        if spec['tier'] == 'quick':
            rng = np.random.default_rng([spec['seed'], 6, spec['j']])
            chosen = set()
            for sc in counts:
                c = counts[sc]
                for n in {1, 2, c, max(c - 1, 1), (c + 1) // 2}:
                    chosen.add((sc, n))
            rest = [pt for pt in points if pt not in chosen]
            target = 64 if conf.get('layout', 'plain') == 'plain' else (48 if conf.get('layout') == 'symlink' else 40)
            for idx in rng.choice(len(rest), size=min(max(target - len(chosen), 8), len(rest)), replace=False):
                chosen.add(rest[int(idx)])
            points = sorted(chosen, key=lambda t: (SYSCALLS.index(t[0]), t[1]))
        mine = points[spec['part']::spec['parts']]
        obs['crash_points_this_case'] = len(mine)
        leftovers = set()
        # ---------------- kill runs
        for (sc, n) in mine:
            kdir = os.path.join(scratch, 'kill')
            _cleanup_otherfs(kdir)
            shutil.rmtree(kdir, ignore_errors=True)
            os.makedirs(os.path.join(kdir, 'states'))
            ck, watch = _layout(kdir, conf.get('layout', 'plain'))
            p = _strace(['-e', 'trace=' + sc, '-e', 'inject=%s:signal=SIGKILL:when=%d' % (sc, n)], sp, ck, watch,
                        os.path.join(kdir, 'side.log'), os.path.join(kdir, 'states'), '/dev/null')
            b, e, dn = _side(os.path.join(kdir, 'side.log'))
            if dn is not None:
                obs['not_reached'] += 1       # the run finished: this call number was not reached (should not happen)
                bad('crash.point-not-reached', 'kill run for %s #%d completed without being killed although the census '
                    'counted %d such calls (non-deterministic syscall sequence)' % (sc, n, counts[sc]))
                continue
            obs['kills_delivered'] += 1
            obs['by_syscall'][sc] = obs['by_syscall'].get(sc, 0) + 1
            j = len(e)
            if e != ends[:j]:
                bad('crash.survivor-log-differs-from-census', 'the killed run logged different completed checkpoints '
                    'than the census run (determinism)', point=[sc, n])
                continue
            inside = len(b) > j
            kind = b[-1][1] if inside else None
            if inside:
                obs['kills_inside_write' if kind == 'write' else 'kills_inside_update'] += 1
            elif j == 0:
                obs['kills_before_first_checkpoint'] += 1
            else:
                obs['kills_between_checkpoints'] += 1
            where = ('inside %s #%d' % (kind, j + 1)) if inside else ('after checkpoint #%d' % j)
            if not os.path.exists(ck):
                if j == 0:
                    obs['leftover_absent_allowed'] += 1
                    continue
                key = 'ckpt.write-unlink-then-create' if kind == 'write' else 'ckpt.file-missing'
                bad(key, 'SIGKILL at %s #%d (%s): the checkpoint file is missing although %d checkpoints had been '
                    'completed' % (sc, n, where, j), point=[sc, n])
                continue
            try:
                d = _digest_file(ck)
            except Exception as ex:
                if j == 0 and not inside:
                    obs['leftover_absent_allowed'] += 1
                    continue
                key = {'write': 'ckpt.write-unlink-then-create', 'update': 'ckpt.update-in-place'}.get(kind, 'ckpt.unreadable')
                if j == 0:
                    key = 'ckpt.first-write-not-atomic'
                bad(key, 'SIGKILL at %s #%d (%s): the leftover checkpoint cannot be read (%s)'
                    % (sc, n, where, str(ex)[:120]), point=[sc, n])
                continue
            leftovers.add(d)
            if d == D.get(j):
                obs['leftover_equals_last_completed'] += 1
            elif inside and d == D.get(j + 1):
                obs['leftover_equals_being_written'] += 1
            else:
                key = {'write': 'ckpt.write-unlink-then-create', 'update': 'ckpt.update-in-place'}.get(kind, 'ckpt.mixed-state')
                bad(key, 'SIGKILL at %s #%d (%s): the leftover checkpoint is readable but its content equals neither the '
                    'last completed state nor the one being written (a mixture)' % (sc, n, where), point=[sc, n])
                continue
            # continuation from the leftover file
            try:
                ok, mv, n_like = _continue(conf, ck)
                obs['continuations'] += 1
                if mv:
                    bad('crash.continuation-violates-invariant', 'resumed from the file left by SIGKILL at %s #%d: %s'
                        % (sc, n, mv[0]['what']), point=[sc, n])
                elif not ok:
                    bad('crash.continuation-does-not-finish', 'resumed from the file left by SIGKILL at %s #%d: run() did '
                        'not finish within the budget' % (sc, n), point=[sc, n])
            except workloads.BudgetExceeded as ex:
                bad('crash.continuation-does-not-finish', 'resumed from the file left by SIGKILL at %s #%d: %s'
                    % (sc, n, ex), point=[sc, n])
            except Exception as ex:
                import traceback
                frames = traceback.extract_tb(ex.__traceback__)
                if not any(f.filename.startswith(env.REPO + '/') for f in frames) or frames[-1].filename.startswith(env.VERIF + '/'):
                    raise
                bad('crash.continuation-raises', 'resumed from the file left by SIGKILL at %s #%d (%s): %r'
                    % (sc, n, where, ex), point=[sc, n])
        obs['distinct_leftover_states_max'] = len(leftovers)
        _cleanup_otherfs(os.path.join(scratch, 'kill'))
        _cleanup_otherfs(cdir)
    nn = obs['kills_inside_write'] + obs['kills_inside_update']
    res = {'obs': obs, 'nontrivial': nn > 0, 'nontrivial_count': nn,
           'key': 'cfg%d-part%d' % (spec['j'], spec['part']),
           'sample': {'config': spec['j'], 'layout': conf.get('layout', 'plain'), 'syscall_counts': counts, 'points': mine[:6]}}
    if viols:
        res.update(status='violation', violations=viols)
    else:
        res['status'] = 'ok'
    return res


def aggregate(specs, results, tier):
    tot = {}
    for sp, r in zip(specs, results):
        if r.get('status') in ('ok', 'violation'):
            tot[sp['j']] = r['obs'].get('crash_points_total_max', 0)
    return {'exhaustive': tier == 'thorough', 'coverage': {'crash_points_per_configuration': tot}}
