"""C07 - bounds are sound: samples lie inside, construction points are enclosed.

Post-condition monitor on the real bound classes: sample() => contains() (+ unit cube),
compute()/split() => contains(construction points), neural/nautilus contains => outer bound.
"""
import traceback

import numpy as np

from .. import boundgen, env

ID = 'C07'
LEVEL = 'exploration'
DECIDING = 'sampled_points_checked'
CHUNK = {'quick': 3, 'thorough': 6}
TIMEOUT = 1500
RULE = ('case = one bound built by the real compute() from a generated landscape (shapes: ' +
        ', '.join(boundgen.SHAPES) + '; d = 1..8; enlargement 1.02..2) for one class/option combination '
        '(UnitCube, Ellipsoid, UnitCubeEllipsoidMixture, Union{Ellipsoid|Mixture members, unit or not, '
        'n_points_min}, NeuralBound{0,1,2 nets}, NautilusBound{0,1 nets, periodic, split_threshold 1|100, '
        'serial or NautilusPool(2)}), followed by a seeded random history of split/trim/sample operations. '
        'Non-trivial = >= 10^4 sampled points checked against contains() and, for classes that can split, '
        '>= 1 successful split (or >= 2 ellipsoids); distinct by (class, options, shape, dimension).')
ASSUMPTIONS = ['enlargement factors >= 1.02 (floating point cannot honour "> 1" arbitrarily close to 1)',
               'LinAlgError/ValueError while *building* a bound from a degenerate generated set = skipped']

COMBOS = []
COMBOS += [('UnitCube', {})]
COMBOS += [('Ellipsoid', {'enlarge_per_dim': e}) for e in (1.02, 1.1, 2.0)]
COMBOS += [('UnitCubeEllipsoidMixture', {'enlarge_per_dim': e}) for e in (1.02, 1.1, 1.5)]
COMBOS += [('Union', {'bound_class': c, 'unit': u, 'n_points_min': m, 'enlarge_per_dim': e})
           for c in ('Ellipsoid', 'UnitCubeEllipsoidMixture') for u in (True, False)
           for m, e in ((None, 1.1), (20, 1.05))]
COMBOS += [('NeuralBound', {'n_networks': n}) for n in (0, 1, 2)]
COMBOS += [('NautilusBound', {'n_networks': n, 'split_threshold': t, 'pool': p, 'force_periodic': fp,
                              'n_points_min': m})
           for n, t, p, fp, m in ((0, 100, 0, False, None), (0, 1, 0, True, 15), (0, 1, 2, False, 15),
                                  (1, 100, 0, True, None), (1, 1, 2, True, 15), (1, 1, 0, False, 20),
                                  (0, 100, 2, True, None), (2, 100, 0, False, None))]


def gen_cases(tier, seed):
    n = 3 * len(COMBOS) if tier == 'quick' else 60 * len(COMBOS)
    cases = []
    for i in range(n):
        kind, opts = COMBOS[i % len(COMBOS)]
        shape = boundgen.SHAPES[(i // len(COMBOS) * 3 + i) % len(boundgen.SHAPES)]
        cases.append({'i': i, 'seed': seed, 'kind': kind, 'opts': opts, 'shape': shape})
    return cases


def _unit_restricted(kind, opts):
    return kind in ('UnitCube', 'NautilusBound') or (kind == 'Union' and opts.get('unit', True))


def _in_cube(p):
    return np.all((p >= 0) & (p < 1), axis=-1)


def run_case(spec):
    from nautilus.pool import NautilusPool
    rng = np.random.default_rng(np.random.SeedSequence([spec['seed'], 7, spec['i']]))
    kind, opts, shape = spec['kind'], dict(spec['opts']), spec['shape']
    basic = kind in ('Ellipsoid', 'UnitCubeEllipsoidMixture', 'Union')
    d = int(rng.integers(1 if basic and shape not in ('parabola', 'wrapped') else 2, 9))
    if kind in ('NeuralBound', 'NautilusBound'):
        d = min(d, 6)
    obs = dict(sampled_points_checked=0, construction_points_checked=0, implication_probes=0,
               splits_accepted=0, splits_refused=0, trims=0, sample_calls=0, pool_sample_calls=0,
               max_ellipsoids=0, periodic_bounds=0, large_construction_sets=0)
    viols = []

    def bad(key, what, **kw):
        if len(viols) < 4:
            viols.append(dict(key=key, what=what, kind=kind, opts=spec['opts'], shape=shape, d=d, **kw))

    pool = None
    try:
        big = basic and spec['i'] % 5 == 2
        if big:
            # large construction sets (12 000 - 30 000 points): whatever the fit does internally to stay fast, every
            # construction point has to end up inside
            d = min(d, 4)
            n_big = int(rng.integers(12000, 30000))
            prob = boundgen.problem(rng, shape, d, n_bg=2 * n_big, n_shape=n_big, n_live=n_big)
            opts['enlarge_per_dim'] = float(rng.choice([1.02, 1.05]))
            obs['large_construction_sets'] = 1
        else:
            prob = boundgen.problem(rng, shape, d)
        if kind == 'NautilusBound' and opts.get('force_periodic') and prob['periodic'] is None:
            prob['periodic'] = rng.choice(d, int(rng.integers(1, d + 1)), replace=False)
        if kind == 'NautilusBound' and not opts.get('force_periodic') and shape != 'wrapped':
            prob['periodic'] = None
        if opts.get('pool'):
            pool = NautilusPool(opts['pool'])
        try:
            bound, cons = boundgen.build(kind, prob, opts, rng, pool=pool if kind == 'NautilusBound' else None)
        except (np.linalg.LinAlgError, ValueError) as e:
            return {'status': 'skipped', 'reason': 'build: %r' % e, 'obs': obs}
        unit = _unit_restricted(kind, opts)
        enlarge = opts.get('enlarge_per_dim', 1.1)
        if kind == 'NautilusBound' and bound.shift is not None:
            obs['periodic_bounds'] += 1

        trimmed = []

        def check_enclosure(tag):
            if cons is None or not basic or trimmed:      # trim() deliberately gives up construction points
                return
            c = cons[_in_cube(cons)] if unit else cons
            inside = bound.contains(c)
            obs['construction_points_checked'] += len(c)
            if not np.all(inside):
                j = int(np.flatnonzero(~inside)[0])
                bad('bound.construction-point-not-enclosed.' + kind,
                    '%d of %d construction points are outside the %s (%s, enlargement %g)'
                    % (int(np.sum(~inside)), len(c), kind, tag, enlarge), point=c[j].tolist())

        def check_samples(n, use_pool=False):
            if kind in ('NeuralBound',):
                return
            if kind == 'NautilusBound':
                p = bound.sample(n, pool=pool if use_pool else None)
                obs['pool_sample_calls'] += int(bool(use_pool and pool is not None))
            else:
                p = bound.sample(n)
            obs['sample_calls'] += 1
            if p.shape != (n, d) or not np.all(np.isfinite(p)):
                bad('bound.sample-shape.' + kind, 'sample(%d) returned shape %s / non-finite values' % (n, p.shape))
                return
            inside = bound.contains(p)
            obs['sampled_points_checked'] += n
            if not np.all(inside):
                j = int(np.flatnonzero(~inside)[0])
                bad('bound.sample-not-contained.' + kind,
                    '%d of %d sampled points fail contains() of the same %s' % (int(np.sum(~inside)), n, kind),
                    point=[float(v).hex() for v in p[j]])
            if unit and not np.all(_in_cube(p)):
                j = int(np.flatnonzero(~_in_cube(p))[0])
                bad('bound.sample-outside-cube.' + kind, 'a sampled point of a unit-restricted %s lies outside '
                    '[0,1)^d' % kind, point=[float(v).hex() for v in p[j]])

        def check_implication():
            if kind == 'NeuralBound':
                ell = bound.outer_bound
                v = rng.normal(size=(4000, d))
                v /= np.linalg.norm(v, axis=1)[:, None]
                r = np.concatenate([rng.uniform(0.9, 1.1, 2000), rng.random(2000) ** (1.0 / d)])
                probes = np.vstack([ell.transform(v * r[:, None], inverse=True), rng.random((2000, d))])
                inner = bound.contains(probes)
                outer = ell.contains(probes)
                obs['implication_probes'] += len(probes)
                obs['sampled_points_checked'] += len(probes)   # membership tests of the monitored kind
                if np.any(inner & ~outer):
                    bad('bound.neural-exceeds-outer', 'NeuralBound contains %d probe points outside its outer '
                        'ellipsoid' % int(np.sum(inner & ~outer)))
            elif kind == 'NautilusBound':
                own = bound.sample(2000)
                probes = np.vstack([rng.random((6000, d)), own,
                                    np.clip(own + 0.02 * rng.normal(size=own.shape), 0, np.nextafter(1, 0))])
                inner = bound.contains(probes)
                shifted = bound.shift.transform(probes) if bound.shift is not None else probes
                outer = bound.outer_bound.contains(shifted)
                obs['implication_probes'] += len(probes)
                if np.any(inner & ~outer):
                    bad('bound.nautilus-exceeds-outer', 'NautilusBound contains %d probe points outside its outer '
                        'union' % int(np.sum(inner & ~outer)))
                if len(bound.neural_bounds):
                    nb = np.any([b.contains(shifted) for b in bound.neural_bounds], axis=0)
                    if np.any(inner & ~nb):
                        bad('bound.nautilus-exceeds-neural', 'NautilusBound contains points no neural bound accepts')

        check_enclosure('after compute')
        check_samples(1)
        check_samples(3000)
        if kind == 'Union':
            for step in range(int(rng.integers(3, 8))):
                op = rng.choice(['split', 'split', 'split_no_overlap', 'sample', 'trim'])
                if op == 'sample':
                    check_samples(int(rng.choice([1, 50, 999, 1000, 2500])))
                    continue
                if op == 'trim':
                    # dropping a low-density member: the remaining union must still be sound for what it returns
                    if bound.trim(threshold=float(rng.choice([1.0, 30.0, 1e3]))):
                        obs['trims'] += 1
                        trimmed.append(True)
                    check_samples(int(rng.choice([1, 700, 1500])))
                    continue
                if op == 'split_no_overlap' and opts['bound_class'] != 'Ellipsoid':
                    op = 'split'
                try:
                    ok = bound.split(allow_overlap=(op == 'split'))
                except (np.linalg.LinAlgError, ValueError) as e:
                    return {'status': 'skipped', 'reason': 'split: %r' % e, 'obs': obs}
                obs['splits_accepted' if ok else 'splits_refused'] += 1
                check_enclosure('after %d splits' % obs['splits_accepted'])
                check_samples(1500)
            obs['max_ellipsoids'] = len(bound.bounds)
            check_samples(4000)
        elif kind == 'NautilusBound':
            obs['max_ellipsoids'] = len(bound.outer_bound.bounds)
            obs['splits_accepted'] = len(bound.outer_bound.bounds) - 1
            for n in (1, 700, 2500, 4000):
                check_samples(n, use_pool=True)
            check_samples(1200, use_pool=False)
            check_implication()
        elif kind == 'NeuralBound':
            check_implication()
            check_implication()
        else:
            check_samples(8000)
    except Exception as e:
        if not env.from_code_under_test(e):
            raise          # harness error: never folded into 'skipped'
        tb = traceback.format_exc()[-1500:]
        return {'status': 'skipped', 'reason': 'raise outside the property: %r' % e, 'traceback': tb, 'obs': obs}
    finally:
        if pool is not None:
            pool.pool.terminate()
    can_split = kind in ('Union', 'NautilusBound')
    nontrivial = obs['sampled_points_checked'] >= 10000 and (not can_split or obs['max_ellipsoids'] >= 2)
    res = {'obs': obs, 'nontrivial': bool(nontrivial),
           'key': '%s|%s|%s|d%d' % (kind, sorted(spec['opts'].items()), shape, d),
           'sample': {'d': d, 'n_live': prob['n_live'], 'ellipsoids': obs['max_ellipsoids']}}
    if viols:
        res.update(status='violation', violations=viols)
    else:
        res['status'] = 'ok'
    return res
