"""C08 - proposals are uniform over the bound and reported volumes are calibrated.

Statistical monitor on the real Union / NautilusBound: the bound's own sample stream and
reported volume are compared with an independent reference (uniform points from a union of
axis-aligned boxes, filtered through the bound's contains()).
"""
import os
import tempfile
import traceback

import numpy as np
from scipy import stats
from scipy.special import gammaln

from .. import boundgen, env

ID = 'C08'
LEVEL = 'exploration'
DECIDING = 'bound_samples_histogrammed'
CHUNK = {'quick': 1, 'thorough': 3}
TIMEOUT = 2400
Z_MAX = 6.1          # two-sided p < 1e-9
P_MIN = 1e-9
RULE = ('case = one Union (Ellipsoid or cube-ellipsoid-mixture members, unit-restricted or not, split up to 16 '
        'times so members overlap and are cut by cube faces) or NautilusBound (0/1 networks, periodic or not, '
        'sampled serially or through NautilusPool(2|4), optionally written to HDF5 and read back first) built '
        'from a generated landscape. Monitors: (a) z-test of exp(log_v) against the Monte-Carlo measure of '
        '{contains} (|z| < 6.1), (b) two-sample chi-square (p > 1e-9) of the bound\'s sample stream against '
        'reference points over cells = overlap multiplicity x spatial octants, (c) Ellipsoid.log_v against '
        'log V_d - log|det B_inv|, (d) the stream is free of repeated points and repeated coordinate values and its '
        'consecutive segments of 50 points are not over-dispersed in member composition. Non-trivial = >= 2 member ellipsoids and >= 1 % of the bound\'s samples '
        'at overlap multiplicity >= 2; distinct by (class, options, shape, dimension, members).')
ASSUMPTIONS = ['false-alarm probability <= ~4e-9 per bound (two tests at 1e-9 each, two-sided)',
               'reference = uniform sampler over a union of axis-aligned boxes (independent code), filtered by the '
               'real contains()', 'cells with expected count < 50 are merged']

COMBOS = [
    ('Union', {'bound_class': 'Ellipsoid', 'unit': True}),
    ('Union', {'bound_class': 'UnitCubeEllipsoidMixture', 'unit': True}),
    ('Union', {'bound_class': 'Ellipsoid', 'unit': False}),
    ('NautilusBound', {'n_networks': 0, 'pool': 0, 'split_threshold': 1}),
    ('NautilusBound', {'n_networks': 1, 'pool': 0, 'split_threshold': 1}),
    ('NautilusBound', {'n_networks': 0, 'pool': 2, 'split_threshold': 1, 'force_periodic': True}),
    ('Union', {'bound_class': 'Ellipsoid', 'unit': True, 'roundtrip': True}),
    ('NautilusBound', {'n_networks': 1, 'pool': 4, 'split_threshold': 100}),
    ('NautilusBound', {'n_networks': 0, 'pool': 0, 'split_threshold': 1, 'roundtrip': True, 'force_periodic': True}),
    ('Union', {'bound_class': 'UnitCubeEllipsoidMixture', 'unit': False}),
    ('NautilusBound', {'n_networks': 1, 'pool': 2, 'split_threshold': 1, 'roundtrip': True}),
    ('Union', {'bound_class': 'UnitCubeEllipsoidMixture', 'unit': True, 'roundtrip': True}),
]
SHAPES = ['blobs', 'ring', 'parabola', 'corner', 'multi', 'free_dims', 'wrapped', 'free_dims', 'face', 'blobs', 'gauss']


def gen_cases(tier, seed):
    n = 24 if tier == 'quick' else 384
    return [{'i': i, 'seed': seed, 'kind': COMBOS[i % len(COMBOS)][0], 'opts': COMBOS[i % len(COMBOS)][1],
             'shape': SHAPES[(i + i // len(COMBOS)) % len(SHAPES)],
             'n_samples': 150000 if tier == 'quick' else 300000} for i in range(n)]


def _member_box(b):
    """Axis-aligned bounding box of an Ellipsoid or UnitCubeEllipsoidMixture."""
    if hasattr(b, 'dim_cube'):
        d = b.n_dim
        lo, hi = np.zeros(d), np.ones(d)
        if b.ellipsoid is not None:
            idx = np.flatnonzero(~b.dim_cube)
            l2, h2 = _member_box(b.ellipsoid)
            lo[idx], hi[idx] = l2, h2
        return lo, hi
    half = np.sqrt(np.sum(np.asarray(b.B) ** 2, axis=1))      # sqrt(diag(B B^T))
    return b.c - half, b.c + half


def _box_reference(members, unit, m, rng):
    """Uniform proposals over the union of member boxes: points, per-proposal weight 1/mult."""
    los, his = zip(*[_member_box(b) for b in members])
    lo, hi = np.array(los) - 1e-9, np.array(his) + 1e-9
    if unit:
        lo, hi = np.clip(lo, 0, 1), np.clip(hi, 0, 1)
    vol = np.prod(hi - lo, axis=1)
    keep = vol > 0
    lo, hi, vol = lo[keep], hi[keep], vol[keep]
    idx = rng.choice(len(vol), size=m, p=vol / vol.sum())
    pts = lo[idx] + rng.random((m, lo.shape[1])) * (hi - lo)[idx]
    mult = np.zeros(m, dtype=int)
    for j in range(len(vol)):
        mult += np.all((pts >= lo[j]) & (pts < hi[j]), axis=1)
    return pts, 1.0 / np.maximum(mult, 1), vol.sum()


def _z(v, v_ref, sd):
    """z-score that stays meaningful when both Monte-Carlo errors vanish (a single member whose region is exactly its
    bounding box: nothing is ever rejected on either side; the reference boxes are padded by 1e-9, hence 1e-6)."""
    if sd <= 1e-12 * max(abs(v), abs(v_ref)):
        return 0.0 if abs(v - v_ref) <= 1e-6 * max(abs(v), abs(v_ref)) else float(np.sign(v - v_ref) * np.inf)
    return float((v - v_ref) / sd)


def _multiplicity(members, y):
    return np.sum([b.contains(y) for b in members], axis=0)


def _cells(y, mult, med):
    mc = np.minimum(mult, 3) - 1
    oct_ = np.zeros(len(y), dtype=int)
    for k in range(min(3, y.shape[1])):
        oct_ = oct_ * 2 + (y[:, k] > med[k])
    return mc * 8 + oct_


def run_case(spec):
    import h5py
    from nautilus.bounds import Union, NautilusBound
    from nautilus.pool import NautilusPool
    rng = np.random.default_rng(np.random.SeedSequence([spec['seed'], 8, spec['i']]))
    kind, opts, shape = spec['kind'], dict(spec['opts']), spec['shape']
    d = int(rng.integers(2, 6))
    if shape == 'ring':
        d = min(d, 3)
    obs = dict(bound_samples_histogrammed=0, reference_points_in_bound=0, reference_proposals=0,
               ellipsoid_volume_checks=0, members=0, cells_used=0, frac_multiplicity_ge2_max=0.0,
               pool_bounds=0, roundtrip_bounds=0, trimmed_unions=0, z_volume_after_trim_abs_max=0.0, segment_dispersion_tests=0, segment_dispersion_ratio_max=0.0, z_volume_abs_max=0.0)
    pool = None
    try:
        prob = boundgen.problem(rng, shape, d, n_live=int(rng.integers(250, 600)))
        if opts.get('force_periodic') and prob['periodic'] is None:
            prob['periodic'] = rng.choice(d, int(rng.integers(1, d + 1)), replace=False)
        if kind == 'NautilusBound' and not opts.get('force_periodic') and shape != 'wrapped':
            prob['periodic'] = None
        if opts.get('pool'):
            pool = NautilusPool(opts['pool'])
            obs['pool_bounds'] = 1
        try:
            o = dict(opts)
            if kind == 'Union':
                o['n_points_min'] = int(rng.choice([d + 1, 10, 20]))
                o['enlarge_per_dim'] = float(rng.choice([1.05, 1.1, 1.3]))
            else:
                o['n_points_min'] = int(rng.choice([d + 1, 15, 30]))
                o['log_v_target'] = float(np.log(prob['n_live'] / len(prob['points'])) - (rng.uniform(3, 7) if o.get('split_threshold') == 1 else rng.uniform(6, 10)))
            bound, _ = boundgen.build(kind, prob, o, rng, pool=pool)
            if kind == 'Union':
                for _ in range(int(rng.integers(1, 17))):
                    if not bound.split():
                        break
                if spec['i'] % 2 == 1 and len(bound.bounds) > 2:
                    # sample a little, then drop the lowest-density member: volume and uniformity must describe the
                    # union that is left, not the one that was sampled before
                    bound.sample(int(rng.integers(20000, 40000)))
                    if bound.trim(threshold=1.0):
                        obs['trimmed_unions'] = 1
                        # volume reported right after the trim, before the big draw below dilutes anything stale
                        early = (float(bound.log_v), int(bound.n_sample), int(bound.n_reject))
        except (np.linalg.LinAlgError, ValueError) as e:
            return {'status': 'skipped', 'reason': 'build: %r' % e, 'obs': obs}

        n_s = spec['n_samples']
        early = locals().get('early')

        def draw(n):
            if kind == 'NautilusBound':
                return bound.sample(n, pool=pool)
            return bound.sample(n)

        if opts.get('roundtrip'):
            # sample a little, write, read back with the same generator, continue on the copy
            draw(int(rng.integers(1, 3000)))
            fd, path = tempfile.mkstemp(suffix='.h5', prefix='nmon-c08-')
            os.close(fd)
            try:
                with h5py.File(path, 'w') as f:
                    bound.write(f.create_group('b'))
                with h5py.File(path, 'r') as f:
                    bound = type(bound).read(f['b'], rng=bound.rng)
            finally:
                os.unlink(path)
            obs['roundtrip_bounds'] = 1

        outer = bound.outer_bound if kind == 'NautilusBound' else bound
        members = outer.bounds
        unit = outer.cube is not None
        shift = getattr(bound, 'shift', None)
        obs['members'] = len(members)

        # (c) closed-form ellipsoid volume against the matrix contains() uses
        viols = []
        for b in members:
            ell = b.ellipsoid if hasattr(b, 'dim_cube') else b
            if ell is None:
                continue
            dd = ell.n_dim
            want = (0.5 * dd * np.log(np.pi) - gammaln(0.5 * dd + 1) - np.linalg.slogdet(ell.B_inv)[1])
            obs['ellipsoid_volume_checks'] += 1
            if abs(ell.log_v - want) > 1e-8 * (1 + abs(want)):
                viols.append(dict(key='bound.ellipsoid-volume-formula', what='Ellipsoid.log_v = %r but the matrix '
                                  'used by contains() gives %r' % (float(ell.log_v), float(want))))

        xs = draw(n_s)
        ys = shift.transform(xs) if shift is not None else xs
        obs['bound_samples_histogrammed'] = len(ys)
        log_v = float(bound.log_v)
        # the bound's own Monte-Carlo error
        n1, r1 = outer.n_sample, outer.n_reject
        rel_var = (r1 / n1) / max(n1 - r1, 1)
        if kind == 'NautilusBound':
            n2, r2 = bound.n_sample, bound.n_reject
            rel_var += (r2 / n2) / max(n2 - r2, 1)

        # reference: batches until enough reference points fell into the bound
        g_all, ref_all, m = [], [], 0
        n_in = 0
        while m < 4 * n_s or (n_in < 20000 and m < 64 * n_s):
            pts, w, box_vol = _box_reference(members, unit, 2 * n_s, rng)
            xs_ref = shift.transform(pts, inverse=True) if shift is not None else pts
            inside = bound.contains(xs_ref)
            g_all.append(w * inside)
            keep = inside & (rng.random(len(pts)) < w)
            ref_all.append(pts[keep])
            n_in += int(np.sum(keep))
            m += len(pts)
        g = np.concatenate(g_all)
        ref = np.vstack(ref_all)
        v_ref = box_vol * g.mean()
        v_ref_sd = box_vol * g.std(ddof=1) / np.sqrt(m)
        obs['reference_proposals'] = m
        obs['reference_points_in_bound'] = len(ref)
        if len(ref) < 5000 or v_ref <= 0:
            return {'status': 'skipped', 'reason': 'reference too sparse (%d points in bound)' % len(ref), 'obs': obs}

        if early is not None:
            v_e, n_e, r_e = np.exp(early[0]), early[1], early[2]
            rv = (r_e / n_e) / max(n_e - r_e, 1)
            z_e = _z(v_e, v_ref, np.sqrt(v_e ** 2 * rv + v_ref_sd ** 2))
            obs['z_volume_after_trim_abs_max'] = abs(float(z_e))
            if abs(z_e) > Z_MAX:
                viols.append(dict(key='bound.volume-miscalibrated-after-trim.' + kind,
                                  what='right after trim() exp(log_v) = %.6g (from %d proposals) but the measure of '
                                  '{contains} is %.6g +- %.2g (z = %.1f)' % (v_e, n_e, v_ref, v_ref_sd, z_e), z=float(z_e)))
        v = np.exp(log_v)
        z = _z(v, v_ref, np.sqrt(v ** 2 * rel_var + v_ref_sd ** 2))
        obs['z_volume_abs_max'] = abs(float(z))
        if abs(z) > Z_MAX:
            viols.append(dict(key='bound.volume-miscalibrated.' + kind,
                              what='exp(log_v) = %.6g but the measure of {contains} is %.6g +- %.2g (z = %.1f)'
                              % (v, v_ref, v_ref_sd, z), z=float(z)))

        n_distinct = len(np.unique(np.ascontiguousarray(xs).view(np.dtype((np.void, xs.dtype.itemsize * xs.shape[1])))))
        if n_distinct != len(xs):
            viols.append(dict(key='bound.samples-repeated.' + kind, kind=kind, opts=spec['opts'], shape=shape, d=d,
                              what='%d of %d points of the sample stream are repeats of earlier points (a uniform sampler '
                              'returns distinct points almost surely)' % (len(xs) - n_distinct, len(xs))))
        # independent draws: no coordinate value may repeat either (pool workers that share a generator for some of the
        # dimensions produce distinct rows with identical coordinates)
        for col in range(xs.shape[1]):
            n_col = len(np.unique(xs[:, col]))
            if n_col != len(xs):
                viols.append(dict(key='bound.coordinate-values-repeated.' + kind, kind=kind, opts=spec['opts'], shape=shape,
                                  d=d, what='coordinate %d of the sample stream takes only %d distinct values in %d '
                                  'draws' % (col, n_col, len(xs))))
                break
        mult_s = _multiplicity(members, ys)
        mult_r = _multiplicity(members, ref)
        # every batch the sampler takes from the stream must be uniform, not only the stream as a whole: the composition
        # of consecutive segments of 50 points must not be over-dispersed relative to independent draws
        if len(members) >= 2:
            inside_m = np.array([b.contains(ys) for b in members])
            frac = inside_m.mean(axis=1)
            m_star = int(np.argmin(np.abs(frac - 0.5)))
            p_hat = float(frac[m_star])
            if 0.02 < p_hat < 0.98:
                seg = 50
                J = len(ys) // seg
                k_j = inside_m[m_star][:J * seg].reshape(J, seg).sum(axis=1)
                S = float(np.sum((k_j - seg * p_hat) ** 2) / (seg * p_hat * (1 - p_hat)))
                p_disp = float(stats.chi2.sf(S, J - 1))
                obs['segment_dispersion_tests'] += 1
                obs['segment_dispersion_ratio_max'] = S / (J - 1)
                if p_disp < P_MIN:
                    viols.append(dict(key='bound.sample-stream-not-exchangeable.' + kind, kind=kind, opts=spec['opts'],
                                      shape=shape, d=d, what='consecutive segments of %d samples are over-dispersed in their '
                                      'share of member %d (dispersion %.1f times binomial over %d segments, p = %.2g): the '
                                      'stream is not a sequence of independent uniform draws' % (seg, m_star, S / (J - 1), J, p_disp)))
        inside_s = bound.contains(xs)
        if np.any(mult_s == 0) or not np.all(inside_s):
            viols.append(dict(key='bound.sample-outside-bound.' + kind, kind=kind, opts=spec['opts'], shape=shape, d=d,
                              what='%d of %d sampled points lie in no member ellipsoid / %d fail contains() of the bound '
                              'they were drawn from' % (int(np.sum(mult_s == 0)), len(ys), int(np.sum(~inside_s)))))
            return {'status': 'violation', 'violations': viols, 'obs': obs, 'nontrivial': False,
                    'key': '%s|%s|%s|d%d' % (kind, sorted(spec['opts'].items()), shape, d)}
        obs['frac_multiplicity_ge2_max'] = float(np.mean(mult_s >= 2))
        med = np.median(ref, axis=0)
        cs, cr = _cells(ys, mult_s, med), _cells(ref, mult_r, med)
        a = np.bincount(cs, minlength=24).astype(float)
        b_ = np.bincount(cr, minlength=24).astype(float)
        A, B = a.sum(), b_.sum()
        exp_small = (a + b_) * min(A, B) / (A + B) < 50
        if np.any(exp_small):      # merge sparse cells into one
            a = np.append(a[~exp_small], a[exp_small].sum())
            b_ = np.append(b_[~exp_small], b_[exp_small].sum())
        nz = (a + b_) > 0
        a, b_ = a[nz], b_[nz]
        obs['cells_used'] = len(a)
        p = 1.0
        if len(a) >= 2:
            chi2 = np.sum((np.sqrt(B / A) * a - np.sqrt(A / B) * b_) ** 2 / (a + b_))
            p = float(stats.chi2.sf(chi2, len(a) - 1))
            if p < P_MIN:
                viols.append(dict(key='bound.samples-not-uniform.' + kind,
                                  what='sample stream differs from uniform-over-contains: chi2 = %.1f with %d cells '
                                  '(p = %.2g); fraction at multiplicity >= 2: samples %.4f, reference %.4f'
                                  % (chi2, len(a), p, np.mean(mult_s >= 2), np.mean(mult_r >= 2)), p=p))
    except Exception as e:
        if not env.from_code_under_test(e):
            raise          # harness error: never folded into 'skipped'
        return {'status': 'skipped', 'reason': 'raise outside the property: %r' % e,
                'traceback': traceback.format_exc()[-1500:], 'obs': obs}
    finally:
        if pool is not None:
            pool.pool.terminate()
    nontrivial = obs['members'] >= 2 and obs['frac_multiplicity_ge2_max'] >= 0.01
    res = {'obs': obs, 'nontrivial': bool(nontrivial),
           'key': '%s|%s|%s|d%d|m%d' % (kind, sorted(spec['opts'].items()), shape, d, obs['members']),
           'sample': {'d': d, 'members': obs['members'], 'z_volume': float(z), 'p_uniform': p,
                      'log_v': log_v, 'v_ref': float(v_ref)}}
    for x in viols:
        x.update(kind=kind, opts=spec['opts'], shape=shape, d=d)
    if viols:
        res.update(status='violation', violations=viols)
    else:
        res['status'] = 'ok'
    return res
