"""C09 - writing and reading back any bound preserves its behaviour.

Differential monitor: the original object is the reference model of its read-back copy; both are
driven in lock-step with the same calls and a cloned PCG64 state.
"""
import hashlib
import os
import tempfile
import traceback

import numpy as np

from .. import boundgen, env

ID = 'C09'
LEVEL = 'exploration'
DECIDING = 'lockstep_calls'
CHUNK = {'quick': 4, 'thorough': 8}
TIMEOUT = 1500
RULE = ('case = one bound of one class/option combination (UnitCube, Ellipsoid, UnitCubeEllipsoidMixture, '
        'Union{member class, unit or not, n_points_min}, NeuralBound{0,1,2 nets}, NautilusBound{0,1,2 nets, '
        'periodic or not, split_threshold 1|100}, d = 2..8) brought into a reachable state by a seeded history '
        'over {split (every third union is first split up to 16 times, so that more than ten members exist), split(no overlap), trim, sample(k)}, written to an HDF5 group and read back with a cloned '
        'generator; original and copy are then driven in lock-step (contains on probe points, log_v, sample '
        'streams long enough to force several refills; two NautilusBound combinations are sampled through NautilusPool(2)). '
        'For Union/NautilusBound the group is then update()d '
        'after more sampling, compared with a fresh write() and read back again. Non-trivial = the write '
        'happened with a non-empty proposal cache (classes with a cache) or the probes hit both inside and '
        'outside (classes without); distinct by (class, options, shape, dimension, history).')
ASSUMPTIONS = ['equality is exact (bit-identical contains masks, log_v and sample arrays)',
               'split() on a read-back union is not part of the property (the may-split flags are not stored)']

COMBOS = []
COMBOS += [('UnitCube', {}), ('Ellipsoid', {}), ('UnitCubeEllipsoidMixture', {})]
COMBOS += [('Union', {'bound_class': c, 'unit': u, 'n_points_min': m})
           for c in ('Ellipsoid', 'UnitCubeEllipsoidMixture') for u in (True, False) for m in (None, 20)]
COMBOS += [('NeuralBound', {'n_networks': n}) for n in (0, 1, 2)]
COMBOS += [('NautilusBound', {'n_networks': n, 'split_threshold': t, 'force_periodic': fp, 'n_points_min': 15})
           for n, t, fp in ((0, 100, False), (0, 1, True), (1, 1, False), (1, 100, True), (2, 1, True),
                            (0, 1, False))]
# sampled through a NautilusPool: the workers' proposal/rejection counters are merged into the parent and must reach
# the checkpoint through update() as well
COMBOS += [('NautilusBound', {'n_networks': n, 'split_threshold': t, 'force_periodic': fp, 'n_points_min': 15, 'pool': 2})
           for n, t, fp in ((0, 1, False), (1, 100, True))]


def gen_cases(tier, seed):
    n = 3 * len(COMBOS) if tier == 'quick' else 72 * len(COMBOS)
    cases = []
    for i in range(n):
        kind, opts = COMBOS[i % len(COMBOS)]
        shape = boundgen.SHAPES[(i // len(COMBOS) * 2 + i) % len(boundgen.SHAPES)]
        cases.append({'i': i, 'seed': seed, 'kind': kind, 'opts': opts, 'shape': shape})
    return cases


def h5_tree(group):
    """Logical content of an HDF5 group: {path: description} for attrs, groups and datasets."""
    import h5py
    out = {}

    def attrs(prefix, obj):
        for k, v in obj.attrs.items():
            a = np.asarray(v)
            out[prefix + '@' + k] = (str(a.dtype), a.shape, hashlib.sha256(a.tobytes()).hexdigest()
                                     if a.dtype.kind != 'O' else repr(v))

    def visit(prefix, g):
        attrs(prefix, g)
        for name, item in g.items():
            path = prefix + '/' + name
            if isinstance(item, h5py.Group):
                out[path] = 'group'
                visit(path, item)
            else:
                a = np.asarray(item)
                out[path] = (str(a.dtype), a.shape, hashlib.sha256(np.ascontiguousarray(a).tobytes()).hexdigest())
                attrs(path, item)
    visit('', group)
    return out


def run_case(spec):
    import h5py
    rng = np.random.default_rng(np.random.SeedSequence([spec['seed'], 9, spec['i']]))
    kind, opts, shape = spec['kind'], dict(spec['opts']), spec['shape']
    d = int(rng.integers(2, 9))
    if kind in ('NeuralBound', 'NautilusBound'):
        d = min(d, 6)
    obs = dict(rng_none_reads=0, non_default_activations=0, pool_bounds=0, members_max=0, bounds_with_more_than_10_members=0, lockstep_calls=0, contains_probes=0, sample_points_compared=0, roundtrips=0, update_roundtrips=0,
               cache_nonempty_at_write=0, refills_forced=0, history_ops=0)
    viols = []
    history = []

    def bad(key, what, **kw):
        if len(viols) < 4:
            viols.append(dict(key=key, what=what, kind=kind, opts=spec['opts'], shape=shape, d=d,
                              history=list(history), **kw))

    fd, path = tempfile.mkstemp(suffix='.h5', prefix='nmon-c09-')
    os.close(fd)
    pool = None
    if opts.get('pool'):
        from nautilus.pool import NautilusPool
        pool = NautilusPool(opts['pool'])
        obs['pool_bounds'] = 1

    def draw(o, n):
        return o.sample(n, pool=pool) if pool is not None else o.sample(n)
    try:
        try:
            prob = boundgen.problem(rng, shape, d)
            if kind == 'NautilusBound':
                if opts.get('force_periodic') and prob['periodic'] is None:
                    prob['periodic'] = rng.choice(d, int(rng.integers(1, d + 1)), replace=False)
                if not opts.get('force_periodic'):
                    prob['periodic'] = None
                opts['log_v_target'] = float(np.log(prob['n_live'] / len(prob['points'])) - rng.uniform(0, 7))
                if spec['i'] % 3 == 0 and opts.get('split_threshold') == 1:
                    opts['log_v_target'] -= 8.0          # forces the outer union to split as far as it can
                    opts['n_points_min'] = d + 1
            if kind in ('NeuralBound', 'NautilusBound') and opts.get('n_networks'):
                # user-chosen network hyper-parameters are part of the bound's behaviour and have to survive the file
                act = ['relu', 'tanh', 'logistic', 'relu'][spec['i'] % 4]
                opts['nn_kwargs'] = {'hidden_layer_sizes': [(16, 8), (12,), (8, 8, 4)][spec['i'] % 3], 'activation': act}
                obs['non_default_activations'] = int(act != 'relu')
            brng = np.random.default_rng(int(rng.integers(2 ** 31)))
            b, cons = boundgen.build(kind, prob, opts, brng)
            can_sample = kind != 'NeuralBound'
            has_cache = kind in ('Union', 'NautilusBound')
            # history before the write
            if kind == 'Union':
                if spec['i'] % 3 == 0:          # many members: more than ten ellipsoids (bound_10, bound_11, ...)
                    for _ in range(16):
                        if not b.split():
                            break
                        history.append(['split', True])
                for _ in range(int(rng.integers(0, 7))):
                    op = str(rng.choice(['split', 'split', 'split_no_overlap', 'trim', 'sample']))
                    if op == 'split_no_overlap' and opts['bound_class'] != 'Ellipsoid':
                        op = 'split'
                    if op == 'split':
                        r = b.split()
                    elif op == 'split_no_overlap':
                        r = b.split(allow_overlap=False)
                    elif op == 'trim':
                        r = b.trim(threshold=float(rng.choice([1.0, 1e3])))
                    else:
                        k = int(rng.choice([1, 37, 999, 1000, 1001, 2500]))
                        b.sample(k)
                        r = k
                    history.append([op, r if not isinstance(r, np.bool_) else bool(r)])
            elif can_sample and rng.random() < 0.7:
                k = int(rng.choice([1, 37, 999, 1000, 1001, 2500]))
                b.sample(k)
                history.append(['sample', k])
            obs['history_ops'] = len(history)
        except (np.linalg.LinAlgError, ValueError) as e:
            return {'status': 'skipped', 'reason': 'build/history: %r' % e, 'obs': obs}

        own = draw(b, 300) if can_sample else np.zeros((0, d))
        centre = np.mean(cons, axis=0) if cons is not None else np.full(d, 0.5)
        base = cons[:400] if cons is not None else rng.random((400, d))
        probes = np.vstack([rng.random((2000, d)), own, base,
                            centre + (base - centre) * rng.uniform(0.8, 1.6, (len(base), 1)),
                            centre + (own - centre) * rng.uniform(0.9, 1.3, (len(own), 1))])

        def lockstep(orig, copy, tag):
            """Drive both objects with the same calls; report the first difference."""
            def both(name, f):
                obs['lockstep_calls'] += 1
                try:
                    x = f(orig)
                except Exception as e:          # the original itself fails: outside this property
                    raise RuntimeError('original raised in %s: %r' % (name, e))
                try:
                    y = f(copy)
                except Exception as e:
                    tbl = traceback.extract_tb(e.__traceback__)[-1]
                    msg = str(e)
                    if kind == 'Union' and isinstance(e, AttributeError) and "'cube'" in msg and not opts.get('unit', True):
                        key = 'union.read-unit-false-no-cube-attr'
                    else:
                        key = 'roundtrip.raise.%s.%s.%s' % (kind, name, type(e).__name__)
                    bad(key, '%s: %s on the read-back %s raised %r at %s:%s' % (tag, name, kind, e,
                        tbl.filename.split('/')[-1], tbl.name))
                    return None, None, False
                return x, y, True

            x, y, ok = both('contains', lambda o: o.contains(probes))
            if not ok:
                return False
            obs['contains_probes'] += len(probes)
            if not np.array_equal(x, y):
                bad('roundtrip.contains-differs.' + kind, '%s: contains() differs on %d of %d probe points'
                    % (tag, int(np.sum(np.asarray(x) != np.asarray(y))), len(probes)))
                return False
            mixed = bool(np.any(x) and not np.all(x))
            if hasattr(orig, 'log_v'):
                x, y, ok = both('log_v', lambda o: o.log_v)
                if not ok:
                    return False
                if not (x == y):
                    bad('roundtrip.log_v-differs.' + kind, '%s: log_v %r != %r' % (tag, float(x), float(y)))
                    return False
            if can_sample:
                for n in (1, int(rng.integers(2, 900)), 1500, int(rng.integers(1000, 4000))):
                    before = getattr(orig, 'n_sample', 0)
                    x, y, ok = both('sample', lambda o: draw(o, n))
                    if not ok:
                        return False
                    obs['sample_points_compared'] += n
                    obs['refills_forced'] += int(getattr(orig, 'n_sample', 0) != before)
                    if not np.array_equal(x, y):
                        bad('roundtrip.sample-stream-differs.' + kind,
                            '%s: sample(%d) streams differ (first differing row %d)'
                            % (tag, n, int(np.flatnonzero(np.any(np.atleast_2d(x != y), axis=-1))[0])
                               if np.shape(x) == np.shape(y) else -1))
                        return False
                x, y, ok = both('log_v', lambda o: o.log_v)
                if ok and not (x == y):
                    bad('roundtrip.log_v-differs.' + kind, '%s: log_v after sampling %r != %r' % (tag, float(x), float(y)))
                    return False
                for attr in ('n_sample', 'n_reject'):
                    if hasattr(orig, attr) and getattr(orig, attr) != getattr(copy, attr):
                        bad('roundtrip.counter-differs.' + kind, '%s: %s %r != %r'
                            % (tag, attr, getattr(orig, attr), getattr(copy, attr)))
                        return False
            return mixed

        def progress(o):
            out = [(type(o).__name__, getattr(o, 'n_sample', None), getattr(o, 'n_reject', None),
                    len(o.points) if isinstance(getattr(o, 'points', None), np.ndarray) else None)]
            for name in ('outer_bound', 'cube', 'ellipsoid'):
                if getattr(o, name, None) is not None:
                    out += progress(getattr(o, name))
            for name in ('bounds', 'neural_bounds'):
                for sub in getattr(o, name, None) or ():
                    out += progress(sub)
            return out

        def read_back(group, tag):
            try:
                return type(b).read(group, rng=boundgen.clone_rng(brng))
            except Exception as e:
                tbl = traceback.extract_tb(e.__traceback__)[-1]
                bad('roundtrip.raise.%s.read.%s' % (kind, type(e).__name__),
                    '%s: read raised %r at %s:%s' % (tag, e, tbl.filename.split('/')[-1], tbl.name))
                return None

        cache = len(getattr(b, 'points', ())) if has_cache else 0
        n_members = len(b.bounds) if kind == 'Union' else (len(b.outer_bound.bounds) if kind == 'NautilusBound' else 1)
        obs['members_max'] = n_members
        obs['bounds_with_more_than_10_members'] = int(n_members > 10)
        obs['cache_nonempty_at_write'] = int(cache > 0)
        with h5py.File(path, 'w') as f:
            b.write(f.create_group('b'))
        with h5py.File(path, 'r') as f:
            r1 = read_back(f['b'], 'write/read')
        obs['roundtrips'] += 1
        # read(group, rng=None) is as valid a call as read(group, rng=g): membership, the reported volume and the saved
        # sampling progress (counters and cached rows of every part) do not depend on which generator the copy holds
        try:
            with h5py.File(path, 'r') as f:
                r0 = type(b).read(f['b'], rng=None)
        except Exception as e:
            tbl = traceback.extract_tb(e.__traceback__)[-1]
            bad('roundtrip.raise.%s.read-rng-none.%s' % (kind, type(e).__name__),
                'read(rng=None) raised %r at %s:%s' % (e, tbl.filename.split('/')[-1], tbl.name))
            r0 = None
        if r0 is not None and r1 is not None:
            obs['rng_none_reads'] += 1
            if not np.array_equal(b.contains(probes), r0.contains(probes)):
                bad('roundtrip.contains-differs.rng-none.' + kind, 'read(rng=None): contains() differs')
            if progress(b) != progress(r0):
                bad('roundtrip.progress-differs.rng-none.' + kind,
                    'read(rng=None): saved sampling progress differs: written %r, read %r'
                    % (progress(b)[:4], progress(r0)[:4]))
            elif hasattr(b, 'log_v') and all(n is None or n > 0 for _, n, _, _ in progress(b)) and not (
                    b.log_v == r0.log_v):      # (log_v draws a batch when nothing was sampled yet: not comparable)
                bad('roundtrip.log_v-differs.rng-none.' + kind,
                    'read(rng=None): log_v %r != %r' % (float(b.log_v), float(r0.log_v)))
        mixed = False
        ok = r1 is not None
        if ok:
            mixed = lockstep(b, r1, 'write/read')
            ok = not viols
        if ok and has_cache:
            # incremental update after the sampling above, against a fresh full write
            with h5py.File(path, 'r+') as f:
                b.update(f['b'])
                b.write(f.create_group('fresh'))
                t_upd, t_new = h5_tree(f['b']), h5_tree(f['fresh'])
            if t_upd != t_new:
                diff = sorted(k for k in set(t_upd) | set(t_new) if t_upd.get(k) != t_new.get(k))
                bad('roundtrip.update-differs-from-write.' + kind,
                    'update() after more sampling leaves a group that differs from a fresh write() in %r' % diff[:6])
            with h5py.File(path, 'r') as f:
                r2 = read_back(f['b'], 'update/read')
            obs['update_roundtrips'] += 1
            try:
                with h5py.File(path, 'r') as f:
                    r3 = type(b).read(f['b'], rng=None)
                if progress(b) != progress(r3):
                    bad('roundtrip.progress-differs.rng-none.' + kind,
                        'update/read(rng=None): saved sampling progress differs: written %r, read %r'
                        % (progress(b)[:4], progress(r3)[:4]))
                obs['rng_none_reads'] += 1
            except Exception as e:
                if not env.from_code_under_test(e):
                    raise
                bad('roundtrip.raise.%s.read-rng-none.%s' % (kind, type(e).__name__), 'update/read(rng=None) raised %r' % e)
            if r2 is not None:
                lockstep(b, r2, 'update/read')
    except RuntimeError as e:
        return {'status': 'skipped', 'reason': str(e), 'obs': obs}
    except Exception as e:
        if not env.from_code_under_test(e):
            raise          # harness error: never folded into 'skipped'
        return {'status': 'skipped', 'reason': 'raise outside the property: %r' % e,
                'traceback': traceback.format_exc()[-1500:], 'obs': obs}
    finally:
        os.unlink(path)
        if pool is not None:
            pool.pool.terminate()
    nontrivial = (obs['cache_nonempty_at_write'] > 0) if has_cache else bool(mixed)
    res = {'obs': obs, 'nontrivial': bool(nontrivial) and not viols or bool(viols),
           'key': '%s|%s|%s|d%d|%s' % (kind, sorted(spec['opts'].items()), shape, d, history),
           'sample': {'d': d, 'history': history, 'cache_rows_at_write': cache}}
    if viols:
        res.update(status='violation', violations=viols)
    else:
        res['status'] = 'ok'
    return res
