"""C10 - likelihood calls: exact count, one batch per step, budget and support kept.

Offline-style checker over the boundary event log (run / add_samples / evaluate_likelihood /
likelihood / pool.map) of every run, with virtual time.
"""
import numpy as np
from scipy.special import logsumexp

from . import samplercase
from .. import drive, env, workloads

ID = 'C10'
LEVEL = 'exploration'
DECIDING = 'batches_checked'
CHUNK = {'quick': 1, 'thorough': 2}
TIMEOUT = {'quick': 600, 'thorough': 1500}
FAMILIES = ['gauss', 'funnel', 'periodic', 'plateau', 'mixture', 'corr', 'ring', 'constant', 'islands', 'staircase']
RULE = ('case = one seeded Sampler driven through a generated history rich in run() calls: n_like_max below, at and '
        'above the current count (0 upward, irregular steps), timeouts of 0,1,2,5,7.5 units of a VIRTUAL clock '
        '(nautilus.sampler.time replaced by a counter), n_shell 1..n_batch+1, n_eff targets, batch sizes incl. 1, '
        'likelihood pools, resumes. The event log is checked: rows per evaluate_likelihood == n_batch == rows the '
        'likelihood/pool really received == increase of n_like; exactly one batch per add_samples; every row in '
        '[0,1)^d; n_like == all rows ever evaluated (across resumes); no batch starts with n_like >= n_like_max or '
        'after the virtual timeout elapsed; run() return value == (explored and all shells >= n_shell and Kish(n_eff) '
        '>= target) recomputed from the stored samples. Non-trivial = a history with >= 3 run() calls in which a '
        'stop on n_like_max, a stop on timeout and a successful return were all observed; distinct by case spec.')
ASSUMPTIONS = ['time is virtual: one unit per reading of the clock, wall clock never consulted',
               'the success predicate is skipped when the Kish size is within 1e-6 (relative) of the target']


def gen_cases(tier, seed):
    n = 24 if tier == 'quick' else 240
    cases = []
    for i in range(n):
        rng = env.case_rng(ID, i, seed)
        pool = ['none', 'none', 'l2', 'none', 'l3', 'b2', 'none', 's2'][i % 8]
        pspec = workloads.gen_problem(rng, family=FAMILIES[i % len(FAMILIES)],
                                      vectorized=False if pool in ('l2', 'l3', 'b2') else None)
        nb = [None, 1, None, 3, None, None, 16, None][(i // 2) % 8]
        if pool == 'l3' and nb is None:
            nb = int(rng.choice([16, 50, 100]))       # not a multiple of the pool size
        cfg = workloads.gen_cfg(rng, pspec, pool=pool, n_batch=nb)
        if cfg['n_batch'] <= 4:
            cfg.update(f_live=0.2, n_eff=100, n_live=30, n_networks=min(cfg['n_networks'], 1))
        hist = drive.gen_history(rng, cfg, kind='plain')
        # make sure every kind of limit occurs
        hist = [['run_timeout', 0.0], ['run_more', 0], ['run_timeout', 2.0], ['run_more', cfg['n_batch'] + 1]] + hist
        cases.append({'i': i, 'seed': seed, 'prob': pspec, 'cfg': cfg, 'hist': hist})
    return cases


class CallLogMonitor:
    def __init__(self):
        self.viol = []
        self.obs = dict(batches_checked=0, rows_checked=0, run_calls=0, stops_on_budget=0, stops_on_timeout=0,
                        successful_returns=0, batches_after_resume=0, pool_batches=0, resumes=0,
                        success_predicates_checked=0, runs_with_zero_batches=0)
        self.total_rows = 0
        self.driver = None
        self.run = None
        self.in_eval = False
        self.in_add = 0
        self.after_resume = False

    def bad(self, key, what, s, **kw):
        if len(self.viol) < 3 and key not in [v['key'] for v in self.viol]:
            self.viol.append(dict(key=key, what=what, n_like=int(s.n_like), n_batch=int(s.n_batch), **kw))

    # ---- run
    def on_run_enter(self, s, kw):
        clock = self.driver.clock
        self.run = dict(kw=kw, n_like_max=kw.get('n_like_max', np.inf), timeout=kw.get('timeout', np.inf),
                        n_shell=kw.get('n_shell', 1), n_eff=kw.get('n_eff', 10000), clock_i0=len(clock.readings),
                        batches=0, n_like0=int(s.n_like))
        self.obs['run_calls'] += 1

    def on_run_exit(self, s, kw, result, exc):
        r, self.run = self.run, None
        if exc is not None:
            return
        if r['batches'] == 0:
            self.obs['runs_with_zero_batches'] += 1
        # success predicate from the stored samples
        disc = bool(s._discard_exploration and s.explored)
        nb = len(s.bounds)
        counts, terms = [], []
        for i in range(nb):
            start = int(s.shell_end_exp[i]) if disc else 0
            ll = np.asarray(s.log_l[i][start:], dtype=float)
            counts.append(len(ll))
            if len(ll):
                prop = int(s.shell_n_sample[i]) - (int(s.shell_n_sample_exp[i]) if disc else 0)
                terms.append(ll + float(s.bounds[i].log_v) + np.log(len(ll) / max(prop, 1)) - np.log(len(ll)))
        kish = 0.0
        if terms:
            t = np.concatenate(terms)
            if np.isfinite(np.max(t)):
                w = np.exp(t - np.max(t))
                kish = float(np.sum(w) ** 2 / np.sum(w ** 2))
        want = bool(s.explored and all(c >= r['n_shell'] for c in counts) and kish >= r['n_eff'])
        borderline = abs(kish - r['n_eff']) <= 1e-6 * max(r['n_eff'], 1)
        if not borderline:
            self.obs['success_predicates_checked'] += 1
            if bool(result) != want:
                self.bad('calls.run-return-value', 'run() returned %r but explored=%s, min shell count=%s (n_shell=%s), '
                         'Kish n_eff=%.3f (target %s)' % (result, s.explored, min(counts) if counts else None,
                                                          r['n_shell'], kish, r['n_eff']), s)
        if result:
            self.obs['successful_returns'] += 1
        else:
            clock = self.driver.clock
            reads = clock.readings[r['clock_i0']:]
            timed_out = len(reads) >= 2 and not (reads[-1] - reads[0] < r['timeout'])
            if not (s.n_like < r['n_like_max']):
                self.obs['stops_on_budget'] += 1
            elif timed_out:
                self.obs['stops_on_timeout'] += 1
            else:
                self.bad('calls.run-stopped-without-reason', 'run() returned False although n_like < n_like_max and the '
                         'virtual timeout had not elapsed', s, kw=str(r['kw']))

    # ---- batches
    def on_before_add_samples(self, s, shell):
        self.in_add += 1
        self._evals_in_add = 0

    def on_after_add_samples(self, s, shell, result, handed):
        self.in_add -= 1
        if self._evals_in_add != 1:
            self.bad('calls.batches-per-step', 'one add_samples step made %d evaluate_likelihood calls' % self._evals_in_add, s)

    def on_before_eval(self, s, points):
        self.in_eval = True
        self._evals_in_add = getattr(self, '_evals_in_add', 0) + 1
        self._lik0 = self.driver.prob.n_calls
        self._map_rows = 0
        self._nlike0 = int(s.n_like)
        p = np.asarray(points)
        self.obs['batches_checked'] += 1
        self.obs['rows_checked'] += len(p)
        self.obs['batches_after_resume'] += int(self.after_resume)
        want = int(self.driver.cfg['n_batch'])
        if len(p) != want or int(s.n_batch) != want:
            self.bad('calls.batch-size', 'a batch of %d rows was evaluated (sampler.n_batch = %d), the configured batch '
                     'size is %d' % (len(p), int(s.n_batch), want), s)
        if p.ndim != 2 or p.shape[1] != s.n_dim or not np.all((p >= 0) & (p < 1)):
            bad_rows = p[~np.all((p >= 0) & (p < 1), axis=1)] if p.ndim == 2 else p
            self.bad('calls.point-outside-unit-cube', 'a point outside [0,1)^d was about to be evaluated: %r'
                     % (bad_rows[:1].tolist(),), s)
        r = self.run
        if r is not None:
            r['batches'] += 1
            if not (self._nlike0 < r['n_like_max']):
                self.bad('calls.batch-started-over-budget', 'a batch started with n_like = %d >= n_like_max = %s'
                         % (self._nlike0, r['n_like_max']), s)
            reads = self.driver.clock.readings[r['clock_i0']:]
            if len(reads) >= 2 and not (reads[-1] - reads[0] < r['timeout']):
                self.bad('calls.batch-started-after-timeout', 'a batch started %g time units after run() began, timeout '
                         '= %g' % (reads[-1] - reads[0], r['timeout']), s)
            if len(reads) < 1 + r['batches']:
                self.bad('calls.timeout-not-consulted', 'batch %d of this run() started without a fresh reading of the '
                         'clock (%d readings)' % (r['batches'], len(reads)), s)

    def on_pool_map(self, pool, func, n):
        if self.in_eval:
            self._map_rows += n
            self.obs['pool_batches'] += 1

    def on_after_eval(self, s, points, log_l, blobs, n0):
        self.in_eval = False
        rows = len(points)
        self.total_rows += rows
        real = (self.driver.prob.n_calls - self._lik0) if s.pool_l is None else self._map_rows
        if real != rows:
            self.bad('calls.rows-vs-real-calls', '%d rows in the batch but the likelihood received %d' % (rows, real), s)
        if len(log_l) != rows:
            self.bad('calls.values-vs-rows', '%d likelihood values for %d rows' % (len(log_l), rows), s)
        if int(s.n_like) - self._nlike0 != rows:
            self.bad('calls.counter-increment', 'n_like rose by %d for a batch of %d rows'
                     % (int(s.n_like) - self._nlike0, rows), s)
        if int(s.n_like) != self.total_rows:
            self.bad('calls.counter-vs-total', 'n_like = %d but %d points were evaluated in total (across resumes)'
                     % (int(s.n_like), self.total_rows), s)

    def on_resume(self, s):
        self.obs['resumes'] += 1
        self.after_resume = True
        if int(s.n_like) != self.total_rows:
            self.bad('calls.counter-after-resume', 'resumed sampler reports n_like = %d, %d points had been evaluated'
                     % (int(s.n_like), self.total_rows), s)


def run_case(spec):
    mon = CallLogMonitor()
    status, info = samplercase.run(spec, [mon])
    o = mon.obs
    nontrivial = (o['run_calls'] >= 3 and o['stops_on_budget'] > 0 and o['stops_on_timeout'] > 0
                  and o['successful_returns'] > 0)
    res = {'obs': o, 'nontrivial': bool(nontrivial), 'key': samplercase.case_key(spec),
           'sample': {'trace': [{k: v for k, v in r.items() if k in ('op', 'ret', 'n_like_before', 'n_like_after')}
                                for r in info['driver'].trace[:10]]}}
    if mon.viol:
        res.update(status='violation', violations=[dict(v, case=samplercase.case_key(spec)) for v in mon.viol])
    elif status == 'ok':
        res['status'] = 'ok'
    else:
        res.update(status='skipped', reason=info.get('reason'), traceback=info.get('traceback'))
    return res
