"""C11 - same seed, same result, however the likelihood is evaluated or observed.

Pairwise differential monitor: a base run against variants that must be indistinguishable.
"""
import os
import warnings

import numpy as np

from . import samplercase
from .. import drive, env, workloads
from ..instrument import Hooks, VirtualClock, result_digest, sampling_state_digest

ID = 'C11'
LEVEL = 'exploration'
DECIDING = 'pairs_compared'
CHUNK = {'quick': 1, 'thorough': 1}
TIMEOUT = 2400
FAMILIES = ['gauss', 'mixture', 'funnel', 'periodic', 'plateau', 'corr', 'ring', 'islands']
VARIANTS = ['again', 'vectorised', 'pool1', 'pool2', 'pool3', 'pool4', 'verbose', 'file', 'observed', 'sampler_pool_again',
            'sampler_pool_file']
RULE = ('case = one seeded configuration; the base run (scalar likelihood, serial, no file, silent, unobserved) is '
        'compared by SHA-256 of posterior()/log_z/n_eff/n_like with variants: same again; vectorised likelihood; '
        'likelihood pool of 1, 2, 3 and 4 workers at the same n_batch (also when n_batch is not a multiple of the pool size), the workers sleeping a point-dependent time so that '
        'completion order differs from submission order (completion stamps logged to a side file); verbose=True; with a '
        'checkpoint file; observed = after every batch a seeded random subset of the read-only accessors (log_z, n_eff, '
        'eta, f_live, log_v_live, posterior(), evidence(), effective_sample_size(), asymptotic_sampling_efficiency(), '
        'shell_bound_occupation(), shell_association()) is called; a sampler-pool run repeated; and a sampler-pool run '
        'with a checkpoint file. In every run that writes a file a hook monitor digests generator states, proposal caches, '
        'draw counters and stored arrays before and after each write()/write_shell_update(): writing must not change them. '
        'Non-trivial = '
        'distinct (configuration, variant) pairs compared; pool variants count only if >= 1 batch completed out of '
        'submission order.')
ASSUMPTIONS = ['single-threaded BLAS/OpenMP (threads pinned to 1), PYTHONHASHSEED fixed',
               'scalar vs vectorised is compared only after both forms were verified bit-identical on random points']


def gen_cases(tier, seed):
    n = 16 if tier == 'quick' else 96
    cases = []
    for i in range(n):
        rng = env.case_rng(ID, i, seed)
        pspec = workloads.gen_problem(rng, family=FAMILIES[i % len(FAMILIES)], vectorized=False,
                                      prior=workloads.PRIORS[(i + 1) % len(workloads.PRIORS)])
        cfg = workloads.gen_cfg(rng, pspec, pool='none', n_batch=[16, 100, 50, 4][i % 4], filepath=False)
        cfg['n_eff'] = min(cfg['n_eff'], 400)
        if i % 8 == 6:
            # one update per bound: shells are empty in the middle of exploration - an accessor that "tidies up" would
            # change the run
            cfg.update(n_update=1, n_live=10, n_batch=1, f_live=1e-3, n_networks=0, n_eff=30, n_shell=1,
                       n_like_new_bound=None, n_points_min=None, periodic=None)
        if i % 8 == 6:
            variants = ['observed', 'again', 'file']
        elif tier == 'quick':
            variants = [['pool2', 'pool3', 'pool4'][i % 3], ['observed', 'vectorised', 'file', 'again', 'verbose',
                                                      'sampler_pool_again', 'pool1'][i % 7]]
            if 'sampler_pool_again' in variants or i % 7 == 2:
                variants.append('sampler_pool_file')
        else:
            variants = list(VARIANTS)
        cases.append({'i': i, 'seed': seed, 'prob': pspec, 'cfg': cfg, 'variants': sorted(set(variants))})
    return cases


class Observer:
    def __init__(self, seed):
        self.rng = np.random.default_rng(seed)
        self.calls = 0
        self.driver = None

    def on_after_add_samples(self, s, shell, result, handed):
        for name in self.rng.choice(drive.ACCESSORS, int(self.rng.integers(1, 5))):
            drive.call_accessor(s, str(name), self.rng)
            self.calls += 1

    def on_after_add_bound(self, s, result):
        drive.call_accessor(s, 'shell_bound_occupation', self.rng)
        self.calls += 1


class WriteIsReadOnly:
    """Invariant at the checkpoint hooks: writing a checkpoint leaves everything that determines the future of the run
    (generator states, proposal caches, draw counters, stored arrays) exactly as it was. A write that changes any of it
    makes the run with a file differ from the run without one as soon as the changed state is used."""

    def __init__(self):
        self.before, self.writes, self.changed, self.cache_rows_max = None, 0, [], 0

    def on_before_write(self, s, kind):
        self.before = sampling_state_digest(s)
        for b in s.bounds:
            if isinstance(getattr(b, 'points', None), np.ndarray):
                self.cache_rows_max = max(self.cache_rows_max, len(b.points))

    def on_after_write(self, s, kind, filepath):
        self.writes += 1
        if self.before is not None and sampling_state_digest(s) != self.before and len(self.changed) < 3:
            self.changed.append(dict(kind=kind, n_like=int(s.n_like), n_bounds=len(s.bounds)))
        self.before = None


class Submissions:
    """Submission order of the first physical coordinate of every batch (for the pool schedule log)."""

    def __init__(self, prob):
        self.prob, self.batches, self.driver = prob, [], None

    def on_before_eval(self, s, points):
        x = self.prob.to_phys(np.asarray(points)) if not self.prob.prior_kind.startswith('Prior') else \
            np.asarray(s.prior.unit_to_physical(np.array(points, dtype=float)))
        self.batches.append([float(v).hex() for v in x[:, 0]])


def _one_run(spec, variant, scratch, budget=None):
    pspec = dict(spec['prob'])
    cfg = dict(spec['cfg'])
    info = {}
    monitors = []
    path = None
    if variant == 'vectorised':
        pspec['vectorized'] = True
    elif variant.startswith('pool'):
        k = int(variant[4:])
        cfg['pool'] = {1: 'none', 2: 'l2', 3: 'l3', 4: 'l4'}[k]
        pspec['sidelog'] = os.path.join(scratch, 'side-%s.log' % variant)
    elif variant == 'file':
        path = os.path.join(scratch, 'c11.hdf5')
    elif variant.startswith('sampler_pool'):
        cfg['pool'] = 's2'
        if variant == 'sampler_pool_file':
            path = os.path.join(scratch, 'c11-sp.hdf5')
    wro = None
    if path is not None:
        wro = WriteIsReadOnly()
        monitors.append(wro)
    prob = workloads.Problem(pspec)
    if variant == 'observed':
        ob = Observer(spec['cfg']['seed'] + 5)
        monitors.append(ob)
    if 'sidelog' in pspec:
        sub = Submissions(prob)
        monitors.append(sub)
    s = None
    try:
        kw = workloads.run_kwargs(cfg, n_like_max=int(min(max(120 * cfg['n_batch'], 2500), 12000)),
                                  verbose=(variant == 'verbose'))
        with warnings.catch_warnings(), np.errstate(all='ignore'):
            warnings.simplefilter('ignore')
            # passive wrappers only count proposals; the budget turns a variant that spins (e.g. because stored
            # points left the unit cube) into an observable difference instead of a watchdog timeout
            with Hooks(monitors, proposal_budget=budget, clock=VirtualClock()) as h:
                s = workloads.make_sampler(prob, cfg, filepath=path, resume=False)   # pools fork with the wrappers
                try:
                    ok = s.run(**kw)
                except workloads.BudgetExceeded:
                    return 'budget-exceeded', dict(ok=False, n_like=int(s.n_like), n_bounds=len(s.bounds),
                                                   proposals=h.proposals)
            info['proposals'] = h.proposals
            dig = result_digest(s)
        info.update(ok=bool(ok), n_like=int(s.n_like), n_bounds=len(s.bounds))
        if variant == 'observed':
            info['accessor_calls'] = ob.calls
        if wro is not None:
            info.update(writes_watched=wro.writes, writes_changed_state=wro.changed, cache_rows_max=wro.cache_rows_max)
        if 'sidelog' in pspec and os.path.exists(pspec['sidelog']):
            rank = {}
            pids = set()
            for j, line in enumerate(sorted(open(pspec['sidelog']).read().split('\n'))):
                f = line.split()
                if len(f) == 3:
                    rank[f[2]] = j
                    pids.add(f[1])
            permuted = 0
            for b in sub.batches:
                r = [rank[x] for x in b if x in rank]
                permuted += int(any(r[i] > r[i + 1] for i in range(len(r) - 1)))
            info.update(batches=len(sub.batches), permuted_batches=permuted, worker_pids=len(pids))
        return dig, info
    finally:
        if s is not None:
            workloads.close_sampler(s)


def run_case(spec):
    obs = dict(pairs_compared=0, runs=0, permuted_batches=0, pool_batches=0, accessor_calls=0, worker_pids_max=0,
               vectorised_pairs=0, checkpoint_writes_watched=0, write_cache_rows_max=0)
    viols = []
    rng = env.case_rng(ID, 10_000 + spec['i'], spec['seed'])
    modes_ok = workloads.verify_modes(spec['prob'], rng)
    n_nontrivial = 0
    compared = []
    with env.Scratch('nmon-c11') as scratch:
        try:
            base, binfo = _one_run(spec, 'base', scratch, budget=50_000_000)
            if base == 'budget-exceeded':
                return {'status': 'skipped', 'reason': 'base run exhausted the proposal budget', 'obs': obs}
            budget = 20 * binfo['proposals'] + 2_000_000
        except np.linalg.LinAlgError as e:
            return {'status': 'skipped', 'reason': repr(e), 'obs': obs}
        obs['runs'] += 1
        sp_ref = None
        for v in spec['variants']:
            if v == 'vectorised' and not modes_ok:
                continue
            ref, ref_name = base, 'base'
            if v in ('sampler_pool_again', 'sampler_pool_file'):
                if sp_ref is None:
                    sp_ref, _ = _one_run(spec, 'sampler_pool', scratch, budget=budget)
                    obs['runs'] += 1
                ref, ref_name = sp_ref, 'sampler_pool'
            try:
                dig, info = _one_run(spec, v, scratch, budget=budget)
            except Exception as e:
                if not env.from_code_under_test(e) or isinstance(e, np.linalg.LinAlgError):
                    raise
                # the base run completed; a variant that must be invisible made the code under test raise
                obs['runs'] += 1
                obs['pairs_compared'] += 1
                viols.append(dict(key='determinism.%s-raises' % v.rstrip('0123456789'),
                                  what='variant %s raised %s although the base run completed'
                                  % (v, drive.describe_exc(e)), case=samplercase.case_key(spec)))
                continue
            obs['runs'] += 1
            obs['pairs_compared'] += 1
            counted = True
            if v.startswith('pool') and v != 'pool1':
                obs['permuted_batches'] += info.get('permuted_batches', 0)
                obs['pool_batches'] += info.get('batches', 0)
                obs['worker_pids_max'] = max(obs['worker_pids_max'], info.get('worker_pids', 0))
                counted = info.get('permuted_batches', 0) > 0
            if v == 'observed':
                obs['accessor_calls'] += info.get('accessor_calls', 0)
            if v == 'vectorised':
                obs['vectorised_pairs'] += 1
            if 'writes_watched' in info:
                obs['checkpoint_writes_watched'] += info['writes_watched']
                obs['write_cache_rows_max'] = max(obs['write_cache_rows_max'], info['cache_rows_max'])
                if info['writes_changed_state']:
                    viols.append(dict(key='determinism.checkpoint-write-changes-sampling-state',
                                      what='variant %s: writing the checkpoint changed generator state, proposal caches, '
                                      'counters or stored arrays of the sampler in memory (first at %r)'
                                      % (v, info['writes_changed_state'][0]), case=samplercase.case_key(spec)))
            n_nontrivial += int(counted)
            compared.append(v)
            if dig != ref:
                viols.append(dict(key='determinism.%s-differs' % v.rstrip('0123456789'),
                                  what='variant %s gives a different result than %s (n_like %d vs %d)'
                                  % (v, ref_name, info['n_like'], binfo['n_like']), case=samplercase.case_key(spec),
                                  detail=info))
    res = {'obs': obs, 'nontrivial': n_nontrivial > 0, 'nontrivial_count': n_nontrivial,
           'key': samplercase.case_key(spec), 'sample': {'variants': compared, 'base': binfo}}
    if viols:
        res.update(status='violation', violations=viols)
    else:
        res['status'] = 'ok'
    return res
