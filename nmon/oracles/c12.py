"""C12 - exploration ends once; then history is append-only; discard is a pure view.

Snapshot/prefix monitor along generated histories + differential between the three ways of
requesting the discard (in run(), set afterwards, set after a resume).
"""
import os
import warnings

import numpy as np

from . import samplercase
from .. import drive, env, workloads
from ..instrument import Hooks, VirtualClock, bound_geometry_digest, digest_arrays, points_array, result_digest

ID = 'C12'
LEVEL = 'exploration'
DECIDING = 'snapshots'
CHUNK = {'quick': 1, 'thorough': 2}
TIMEOUT = {'quick': 600, 'thorough': 1500}
FAMILIES = ['gauss', 'mixture', 'funnel', 'plateau', 'periodic', 'ring', 'islands', 'corr']
RULE = ('two kinds of case. (history) one seeded Sampler driven through slices, resumes and discard_exploration '
        'toggles at arbitrary batch boundaries (also before exploration ended and with an empty post-exploration '
        'view); at every batch boundary a snapshot monitor checks: explored never goes back, after exploration the '
        'bound list and every bound\'s geometry digest are frozen, no shell is empty, every earlier per-shell '
        'snapshot is a prefix of the later arrays; view ON = exactly the rows stored after exploration ended (recorded by the '
        'monitor itself), each of which must have been passed to the likelihood after exploration ended; whenever the '
        'same (flag, stored state) recurs all statistics and posterior() are bit-identical. (paths) three samplers '
        'with one seed request the discard in run(), by the setter after exploration, and by the setter after a '
        'resume from the end-of-exploration checkpoint; statistics at the same stored state and final results must '
        'agree bit for bit. Non-trivial history = >= 2 toggles after exploration with >= 1 sampling-phase batch '
        'between toggles; every completed paths case is non-trivial; distinct by case spec.')
ASSUMPTIONS = ['bound geometry digest covers ellipsoid centres/matrices, network weights and normalisation, shift '
               'centres; proposal caches and counters are excluded on purpose']


def gen_cases(tier, seed):
    n = 24 if tier == 'quick' else 240
    cases = []
    for i in range(n):
        rng = env.case_rng(ID, i, seed)
        pspec = workloads.gen_problem(rng, family=FAMILIES[i % len(FAMILIES)])
        cfg = workloads.gen_cfg(rng, pspec, pool='none')
        if cfg['n_batch'] <= 3:
            cfg.update(f_live=0.2, n_eff=100, n_live=30, n_networks=min(cfg['n_networks'], 1))
        if i % 6 == 2:
            # bimodal, few live points, no networks: bounds are not nested and transfer candidates can survive the end of
            # exploration - they must never enter the post-exploration view
            pspec = workloads.gen_problem(rng, family='mixture', d=3, blobs=pspec['blobs'], prior=pspec['prior'],
                                          vectorized=pspec['vectorized'])
            cfg = workloads.gen_cfg(rng, pspec, pool='none', n_batch=50, networks=0)
            cfg.update(n_live=100, discard_exploration=True, n_eff=int(rng.choice([600, 1200])), n_shell=1,
                       n_update=None, n_like_new_bound=None, periodic=None)
        if i % 6 == 4:
            cfg.update(n_update=1, n_live=int(rng.choice([10, 12, 15])), n_batch=int(rng.choice([1, 2])), f_live=1e-3,
                       n_networks=0, n_eff=int(rng.choice([30, 60])), n_shell=1, n_like_new_bound=None, enlarge_per_dim=2.0,
                       n_points_min=None, filepath=True, discard_exploration=bool(i % 4 == 0), periodic=None)
        if i % 4 == 3:
            cfg['filepath'] = True
            cases.append({'i': i, 'seed': seed, 'kind': 'paths', 'prob': pspec, 'cfg': cfg, 'hist': []})
            continue
        hist = drive.gen_history(rng, cfg, kind='plain')
        nb = cfg['n_batch']
        tail = []
        for _ in range(int(rng.integers(2, 6))):
            tail.append(['toggle'])
            r = rng.random()
            if r < 0.5:
                tail.append(['run_more', int(rng.choice([nb, 2 * nb, 5 * nb]))])
            elif r < 0.7:
                tail.append(['access', ['posterior', 'log_z', 'n_eff']])
            elif r < 0.85 and cfg['filepath']:
                tail.append(['resume'])
        cases.append({'i': i, 'seed': seed, 'kind': 'history', 'prob': pspec, 'cfg': cfg, 'hist': hist + tail})
    return cases


def _stats(s):
    """Everything a user can read that depends on the view."""
    with warnings.catch_warnings(), np.errstate(all='ignore'):
        warnings.simplefilter('ignore')
        lz = s.log_z
        parts = [np.array([np.nan if lz is None else lz, s.n_eff], dtype=float),
                 np.asarray(s.shell_n), np.asarray(s.shell_n_eff, dtype=float),
                 np.asarray(s.shell_log_l, dtype=float), np.asarray(s.shell_log_v, dtype=float)]
        if np.sum(s.shell_n) > 0:
            parts.append(np.array([s.eta], dtype=float))
            out = s.posterior(return_blobs=s.blobs is not None)
            pts = points_array(out[0])
            parts += [np.asarray(pts), out[1], out[2]] + ([out[3]] if len(out) > 3 else [])
    return digest_arrays(*parts)


def _state_digest(s):
    arrs = []
    for i in range(len(s.points)):
        arrs += [s.points[i], s.log_l[i]]
        if s.blobs is not None:
            arrs.append(s.blobs[i])
    arrs += [np.asarray(s.shell_n_sample), np.asarray(s.shell_n_sample_exp), np.asarray(s.shell_end_exp)]
    return digest_arrays(*arrs)


class SnapshotMonitor:
    def __init__(self):
        self.viol = []
        self.obs = dict(snapshots=0, prefix_checks=0, geometry_checks=0, toggles=0, toggles_after_exploration=0,
                        toggles_before_exploration=0, view_recurrences_compared=0, sampling_batches_between_toggles=0,
                        resumes_after_exploration=0, empty_discarded_views=0, discard_rows_traced_to_evaluation=0, transfer_candidates_left_at_end_of_exploration=0, bounds_frozen_max=0)
        self.driver = None
        self.was_explored = False
        self.post_rows = set()       # unit points passed to the likelihood after exploration had ended
        self.end_lens = None
        self.frozen = None           # list of bound digests at the end of exploration
        self.prefix = None           # per shell: (n, digest points[:n], digest log_l[:n], digest blobs[:n])
        self.seen = {}               # (flag, state digest) -> stats digest
        self.batches = 0
        self._batches_at_last_toggle = None

    def bad(self, key, what, s, where):
        if len(self.viol) < 3 and key not in [v['key'] for v in self.viol]:
            self.viol.append(dict(key=key, what=what, where=where, n_like=int(s.n_like), n_bounds=len(s.bounds)))

    def snap(self, s, where, geometry=False):
        self.obs['snapshots'] += 1
        if self.was_explored and not s.explored:
            self.bad('phase.exploration-resumed', 'explored went from True back to False', s, where)
        if not s.explored:
            return
        if not self.was_explored:
            self.was_explored = True
            self.frozen = [bound_geometry_digest(b) for b in s.bounds]
            self.obs['transfer_candidates_left_at_end_of_exploration'] += int(np.sum(np.asarray(s.shell_t) >= 0)) \
                if len(np.atleast_1d(s.shell_t)) else 0
            # where exploration ended, observed independently of the sampler's own markers
            self.end_lens = np.array([len(p) for p in s.points])
            if len(s.shell_end_exp) != len(s.points) or not np.array_equal(np.asarray(s.shell_end_exp), self.end_lens):
                self.bad('phase.exploration-end-markers-wrong', 'at the end of exploration the shells hold %r samples but '
                         'shell_end_exp = %r' % (self.end_lens.tolist(), np.asarray(s.shell_end_exp).tolist()), s, where)
            if len(s.shell_n_sample_exp) != len(s.points):
                self.bad('phase.exploration-end-markers-wrong', '%d exploration proposal counts for %d shells'
                         % (len(s.shell_n_sample_exp), len(s.points)), s, where)
            self.obs['bounds_frozen_max'] = len(self.frozen)
            self.prefix = None
        if len(s.bounds) != len(self.frozen) or len(s.points) != len(self.frozen):
            self.bad('phase.bound-set-changed', 'number of bounds changed from %d to %d after exploration'
                     % (len(self.frozen), len(s.bounds)), s, where)
            return
        if geometry:
            self.obs['geometry_checks'] += 1
            now = [bound_geometry_digest(b) for b in s.bounds]
            if now != self.frozen:
                j = [a != b for a, b in zip(now, self.frozen)].index(True)
                self.bad('phase.bound-geometry-changed', 'bound %d changed after exploration had finished' % j, s, where)
        for i in range(len(s.points)):
            if len(s.points[i]) == 0:
                self.bad('phase.empty-shell-after-exploration', 'shell %d holds no sample after exploration' % i, s, where)
        cur = []
        for i in range(len(s.points)):
            b = s.blobs[i] if s.blobs is not None else None
            if self.prefix is not None:
                n, dp, dl, db = self.prefix[i]
                self.obs['prefix_checks'] += 1
                if (len(s.points[i]) < n or digest_arrays(s.points[i][:n]) != dp
                        or digest_arrays(s.log_l[i][:n]) != dl
                        or (b is not None and digest_arrays(b[:n]) != db)):
                    self.bad('phase.history-not-append-only', 'shell %d: the %d samples recorded earlier are no longer a '
                             'prefix of the stored arrays (now %d rows)' % (i, n, len(s.points[i])), s, where)
            n = len(s.points[i])
            cur.append((n, digest_arrays(s.points[i]), digest_arrays(s.log_l[i]),
                        digest_arrays(b) if b is not None else None))
        self.prefix = cur

    def view(self, s, where):
        """Check the meaning of the current view and its reproducibility."""
        if not s.explored:
            return
        flag = bool(s._discard_exploration)
        if flag:
            ends = self.end_lens if self.end_lens is not None and len(self.end_lens) == len(s.points) else \
                np.asarray(s.shell_end_exp)
            want = np.array([len(s.points[i]) - int(ends[i]) for i in range(len(s.points))])
            if not np.array_equal(np.asarray(s.shell_n), want):
                self.bad('view.discard-not-post-exploration-rows', 'with discard on, shell_n = %r but rows after '
                         'shell_end_exp = %r' % (np.asarray(s.shell_n).tolist(), want.tolist()), s, where)
            if self.end_lens is not None and len(self.end_lens) == len(s.points):
                for i in range(len(s.points)):
                    rows = np.asarray(s.points[i][int(self.end_lens[i]):], dtype=float)
                    self.obs['discard_rows_traced_to_evaluation'] += len(rows)
                    old_rows = [r for r in rows if r.tobytes() not in self.post_rows]
                    if old_rows:
                        self.bad('view.discard-shows-exploration-sample', 'the discarded view of shell %d contains %d '
                                 'samples whose likelihood was evaluated before exploration ended' % (i, len(old_rows)),
                                 s, where)
                        break
            if np.sum(want) == 0:
                self.obs['empty_discarded_views'] += 1
            else:
                out = s.posterior()
                ll = np.concatenate([s.log_l[i][int(ends[i]):] for i in range(len(s.points))])
                if not np.array_equal(out[2], ll):
                    self.bad('view.discard-not-post-exploration-rows', 'posterior() under discard is not exactly the rows '
                             'drawn after exploration ended', s, where)
        else:
            want = np.array([len(p) for p in s.points])
            if not np.array_equal(np.asarray(s.shell_n), want):
                self.bad('view.full-view-count', 'with discard off, shell_n = %r but %r rows are stored'
                         % (np.asarray(s.shell_n).tolist(), want.tolist()), s, where)
        key = (flag, _state_digest(s))
        st = _stats(s)
        if key in self.seen:
            self.obs['view_recurrences_compared'] += 1
            if self.seen[key] != st:
                self.bad('view.toggle-not-pure', 'the same stored state under discard_exploration=%s gave different '
                         'statistics/posterior than before the toggles' % flag, s, where)
        else:
            self.seen[key] = st

    def on_before_eval(self, s, points):
        if s.explored:
            self.post_rows.update(r.tobytes() for r in np.asarray(points, dtype=float))

    def on_before_add_samples(self, s, shell):
        if s.explored and not self.was_explored:      # first sampling-phase batch is about to be drawn
            self.snap(s, 'before the first sampling-phase batch')

    def on_before_write(self, s, kind):
        if s.explored and not self.was_explored:      # the full write at the end of exploration
            self.snap(s, 'at the end-of-exploration checkpoint')

    def on_after_add_bound(self, s, result):
        if self.was_explored:
            self.bad('phase.bound-added-after-exploration', 'add_bound was called after exploration had finished', s,
                     'add_bound')
        self.snap(s, 'after add_bound')

    def on_after_add_samples(self, s, shell, result, handed):
        self.batches += 1
        self.snap(s, 'after add_samples', geometry=(self.batches % 10 == 0))

    def on_run_exit(self, s, kw, result, exc):
        if exc is None:
            self.snap(s, 'at run() return', geometry=True)
            self.view(s, 'at run() return')

    def on_after_toggle(self, s, value):
        self.obs['toggles'] += 1
        if s.explored:
            self.obs['toggles_after_exploration'] += 1
            if self._batches_at_last_toggle is not None and self.batches > self._batches_at_last_toggle:
                self.obs['sampling_batches_between_toggles'] += self.batches - self._batches_at_last_toggle
            self._batches_at_last_toggle = self.batches
        else:
            self.obs['toggles_before_exploration'] += 1
        self.snap(s, 'after toggle')
        self.view(s, 'after discard_exploration = %s' % value)

    def on_resume(self, s):
        if self.was_explored:
            self.obs['resumes_after_exploration'] += 1
        self.snap(s, 'on resumed sampler', geometry=True)
        self.view(s, 'on resumed sampler')


def _paths_case(spec):
    """Discard requested in run() / by the setter / by the setter after a resume."""
    prob_spec, cfg = spec['prob'], dict(spec['cfg'])
    obs = dict(snapshots=0, paths_compared=0, stats_compared=0, finals_compared=0)
    viol = []
    with env.Scratch('nmon-c12') as scratch:
        kw0 = dict(f_live=cfg['f_live'], n_shell=0, n_eff=0, n_like_max=30000)
        fin = dict(f_live=cfg['f_live'], n_shell=cfg['n_shell'], n_eff=min(cfg['n_eff'], 300), n_like_max=45000,
                   discard_exploration=True)
        res = {}
        for name in ('in_run', 'setter', 'setter_after_resume'):
            prob = workloads.Problem(prob_spec)
            path = os.path.join(scratch, name + '.hdf5')
            s = workloads.make_sampler(prob, cfg, filepath=path, resume=False)
            guard = Hooks([], proposal_budget=30_000_000, clock=VirtualClock())
            guard.__enter__()
            try:
                ok = s.run(discard_exploration=(name == 'in_run'), **kw0)
                if not (ok and s.explored):
                    return {'status': 'skipped', 'reason': 'exploration did not finish within the budget', 'obs': obs}
                if name == 'setter':
                    s.discard_exploration = True
                elif name == 'setter_after_resume':
                    workloads.close_sampler(s)
                    s = workloads.make_sampler(prob, cfg, filepath=path, resume=True)
                    s.discard_exploration = True
                st0 = (_stats(s), _state_digest(s), int(s.n_like), bool(s.discard_exploration))
                s.run(**fin)
                res[name] = (st0, result_digest(s), int(s.n_like), _stats(s))
                obs['snapshots'] += 2
            except workloads.BudgetExceeded as e:
                viol.append(dict(key='view.request-path-does-not-finish', what='discard requested by %s: %s' % (name, e)))
                break
            finally:
                guard.__exit__(None, None, None)
                workloads.close_sampler(s)
        if viol:
            return {'status': 'violation', 'obs': obs, 'nontrivial': True, 'key': 'paths|' + samplercase.case_key(spec),
                    'violations': [dict(v, case=samplercase.case_key(spec)) for v in viol]}
        base = res['in_run']
        for name in ('setter', 'setter_after_resume'):
            obs['paths_compared'] += 1
            obs['stats_compared'] += 1
            if res[name][0] != base[0]:
                viol.append(dict(key='view.request-paths-disagree', what='discard requested by %s gives different '
                                 'statistics than discard requested in run() at the end of exploration '
                                 '(n_like %d vs %d, flag %s vs %s)' % (name, res[name][0][2], base[0][2],
                                                                      res[name][0][3], base[0][3])))
            obs['finals_compared'] += 1
            if res[name][1:] != base[1:]:
                viol.append(dict(key='view.request-paths-final-disagree', what='final result after discard requested by '
                                 '%s differs from discard requested in run() (n_like %d vs %d)'
                                 % (name, res[name][2], base[2])))
    out = {'obs': obs, 'nontrivial': True, 'key': 'paths|' + samplercase.case_key(spec),
           'sample': {'n_like_final': base[2]}}
    if viol:
        out.update(status='violation', violations=[dict(v, case=samplercase.case_key(spec)) for v in viol])
    else:
        out['status'] = 'ok'
    return out


def run_case(spec):
    if spec['kind'] == 'paths':
        try:
            return _paths_case(spec)
        except Exception as e:
            import traceback
            frames = traceback.extract_tb(e.__traceback__)
            if not any(f.filename.startswith(env.REPO + '/') for f in frames) or frames[-1].filename.startswith(env.VERIF + '/'):
                raise
            return {'status': 'violation', 'obs': {}, 'nontrivial': False, 'key': 'paths',
                    'violations': [dict(key='view.raise.%s' % type(e).__name__,
                                        what='discard request path raised ' + drive.describe_exc(e),
                                        case=samplercase.case_key(spec))]}
    mon = SnapshotMonitor()

    def raised(e, drv):
        if isinstance(e, np.linalg.LinAlgError):
            return None
        # a resume/toggle history raising is in scope (the property enumerates these histories)
        if mon.obs['toggles'] > 0 and '/nautilus/sampler.py' in ''.join(f.filename for f in
                                                                         __import__('traceback').extract_tb(e.__traceback__)):
            return dict(key='view.raise.%s' % type(e).__name__, what='history with toggles raised ' + drive.describe_exc(e))
        return None
    status, info = samplercase.run(spec, [mon], code_raise_is_violation=raised)
    o = mon.obs
    nontrivial = o['toggles_after_exploration'] >= 2 and o['sampling_batches_between_toggles'] >= 1
    res = {'obs': o, 'nontrivial': bool(nontrivial), 'key': samplercase.case_key(spec),
           'sample': {'history': spec['hist'][-10:]}}
    viols = list(mon.viol)
    if status == 'violation':
        viols.append(info['violation'])
    if viols:
        res.update(status='violation', violations=[dict(v, case=samplercase.case_key(spec)) for v in viols])
    elif status == 'ok':
        res['status'] = 'ok'
    else:
        res.update(status='skipped', reason=info.get('reason'), traceback=info.get('traceback'))
    return res
