"""C13 - a union of ellipsoids stays well-formed under any split/trim/sample order.

History + reference model: every operation sequence over the alphabet below is executed on
the real nautilus.bounds.Union as a prefix tree (deep copy per branch); after every
operation the per-ellipsoid records are compared with a reference model (the list of point
sets).
"""
import copy
import hashlib

import numpy as np

ID = 'C13'
LEVEL = 'exploration'
EXHAUSTIVE = True
DECIDING = 'operations'
CHUNK = {'quick': 1, 'thorough': 1}
TIMEOUT = 3000
OPS = ['split', 'split_no_overlap', 'trim', 'trim_easy', 'sample']
RULE = ('case = one generated point set (1-4 clusters - Gaussian blobs or, every fourth set, uniform simplices/boxes facing each '
        'other across a small gap -, optional sparse halo, every sixteenth set shrunk to a scale where volumes are below the smallest double (unit=False), d=2..5, n_points_min in '
        '{None, d+1, 15, 30}, member class Ellipsoid or UnitCubeEllipsoidMixture); ALL operation sequences '
        'over {split, split(allow_overlap=False), trim(), trim(threshold=1), sample(50)} up to length 3 '
        '(quick) / 5 (thorough) - for every second point set appended to the fixed prefix split, split, sample - are '
        'executed as a prefix tree on deep copies of the real Union and checked '
        'against the reference model after every operation (split(allow_overlap=False) is skipped for '
        'mixture members, where the documented ValueError applies). Non-trivial = a sequence (tree node) '
        'containing >= 1 successful split; all sequences of a point set are distinct.')
ASSUMPTIONS = ['enumeration is exhaustive per point set up to the stated length, not over point sets',
               'a branch is not explored beyond its first violation (later failures would be consequences)']


def gen_cases(tier, seed):
    n = 64 if tier == 'quick' else 64
    depth = 3 if tier == 'quick' else 5
    return [{'i': i, 'seed': seed, 'depth': depth} for i in range(n)]


def make_points(spec):
    rng = np.random.default_rng(np.random.SeedSequence([spec['seed'], 13, spec['i']]))
    i = spec['i']
    d = 2 + i % 4
    k = 1 + (i // 4) % 4
    npm = [None, d + 1, 15, 30][(i // 2) % 4]
    cls = 'Ellipsoid' if (i // 8) % 2 == 0 or i % 3 == 0 else 'UnitCubeEllipsoidMixture'
    pts = []
    flat = (i % 8 in (4, 5))
    tiny = (i % 16 == 10)
    if tiny:
        # the same clouds at a scale where ellipsoid volumes are far below the smallest double (log-volume < -745):
        # legitimate for a union that is not restricted to the unit cube, and the volume test of split() must still work
        d = 3 + (i // 16) % 2
        k = [1, 2, 1, 3][(i // 16) % 4]
        cls = 'Ellipsoid'
    if flat:
        d = 2       # the window in which a no-overlap split increases the volume exists in two dimensions
    scale = rng.uniform(0.06, 0.1)
    flat_par = (scale * rng.uniform(1.15, 1.27), scale * 3.0, scale)      # gap, height, half width of the base       # uniform simplices / boxes instead of Gaussian blobs: splitting such a pair can give
    for j in range(k):        # non-overlapping children whose bounding ellipsoids are larger than the parent's
        n = int(rng.integers(40, 130))
        c = rng.uniform(0.2, 0.8, d)
        s = rng.uniform(0.01, 0.08, d)
        if flat:
            if j < 2:
                # two simplices base to base across a gap, apexes pointing away from each other: the ellipsoid around
                # both is a good fit, the ellipsoid around each one alone is a poor one
                sign = 1.0 if j == 0 else -1.0
                gap, height, half = flat_par
                verts = np.zeros((d + 1, d))
                verts[:d, 0] = sign * gap
                for a in range(1, d):
                    verts[a - 1, a] = half
                    verts[a, a] = -half if a == d - 1 else verts[a, a]
                verts[:d, 1:] = half * (2 * rng.random((d, d - 1)) - 1) if d > 2 else verts[:d, 1:]
                if d == 2:
                    verts[0, 1], verts[1, 1] = half, -half
                verts[d, 0] = sign * (gap + height)
                w = rng.dirichlet(np.ones(d + 1), size=n)
                pts.append(np.full(d, 0.5) + np.vstack([verts, w @ verts]))
            else:
                pts.append(c + rng.uniform(0.05, 0.1) * (rng.random((n, d)) - 0.5))      # a uniform box elsewhere
        elif tiny:
            # uniform balls: splitting one in two gives children whose ellipsoids together are larger than the parent's,
            # so a correct split() has to refuse at this scale exactly as it does at ordinary scale
            n = int(rng.integers(150, 300))
            x = rng.normal(size=(n, d))
            x *= (rng.random(n) ** (1.0 / d) / np.linalg.norm(x, axis=1))[:, None]
            pts.append(c + float(np.mean(s)) * x)
        else:
            pts.append(c + s * rng.normal(size=(n, d)))
    if i % 5 == 0:   # sparse halo: a low-density record that trim() may drop
        pts.append(rng.uniform(0.05, 0.95, size=(int(rng.integers(d + 2, 25)), d)))
    if i % 8 == 7:
        # tight modes near opposite corners: the single initial cube-ellipsoid mixture is the whole unit cube (no
        # ellipsoidal dimension, log-volume exactly 0) and the first split starts from that degenerate record
        d = 2 + (i // 8) % 2
        cls = 'UnitCubeEllipsoidMixture'
        corners = [[.05, .05], [.95, .95], [.05, .95]] if d == 2 else \
            [[.05, .05, .05], [.95, .95, .05], [.05, .95, .95], [.95, .05, .95]]
        k = len(corners)
        pts = [np.array(c) + 0.02 * rng.normal(size=(int(rng.integers(40, 90)), d)) for c in corners]
    starve = (i % 8 == 3)
    if starve:
        # corner clusters again, with n_points_min chosen so that records of slightly more than 2*n_points_min points
        # occur after two splits (where a very uneven mixture fit + top-up can starve the larger cluster)
        d = 2 + (i // 8) % 2
        corners = [[.05, .05], [.95, .95], [.05, .95], [.95, .05]] if d == 2 else \
            [[.05, .05, .05], [.95, .95, .05], [.05, .95, .95], [.95, .05, .95]]
        k = int(rng.integers(3, len(corners) + 1))
        npm_s = int(rng.choice([20, 25, 30]))
        pts = [np.array(c) + 0.02 * rng.normal(size=(int(rng.integers(2 * npm_s, 3 * npm_s)), d)) for c in corners[:k]]
    p = np.clip(np.vstack(pts), 1e-6, 1 - 1e-6)
    rng.shuffle(p)
    if tiny:
        p = (p - 0.5) * (1e-120 if d == 3 else 1e-90)
    enlarge = float([1.1, 1.05, 1.5][i % 3])
    if flat:
        enlarge, npm = float([1.05, 1.1][i % 2]), [None, 15][(i // 8) % 2]
    if starve:
        npm = npm_s
    return p, dict(d=d, clusters=k, n_points_min=npm, bound_class=cls, n=len(p),
                   enlarge_per_dim=enlarge, halo=(i % 5 == 0), flat=bool(flat), unit=not tiny)


def _digest_bound(b):
    h = hashlib.sha256()
    if hasattr(b, 'dim_cube'):
        h.update(np.asarray(b.dim_cube).tobytes())
        b = b.ellipsoid
        if b is None:
            return h.hexdigest()
    h.update(np.ascontiguousarray(b.c).tobytes())
    h.update(np.ascontiguousarray(b.A).tobytes())
    return h.hexdigest()


def _sorted_rows(p):
    p = np.asarray(p)
    if len(p) == 0:
        return p
    return p[np.lexsort(p.T[::-1])]


def _snapshot(u):
    return ([_digest_bound(b) for b in u.bounds],
            [hashlib.sha256(np.ascontiguousarray(p).tobytes()).hexdigest() for p in u.points_bounds])


class Explorer:
    def __init__(self, spec, points, meta):
        self.spec, self.points, self.meta = spec, points, meta
        self.obs = {'operations': 0, 'sequences': 0, 'outcomes': {}, 'max_records': 0,
                    'operations_at_sub_double_volume': 0,
                    'points_enclosure_tests': 0}
        self.viols = {}
        self.nontrivial = 0
        self.example = None

    def bad(self, key, what, seq, **kw):
        self.viols.setdefault(key, dict(key=key, what=what, sequence=list(seq), point_set=self.meta, **kw))

    def check_records(self, u, seq, npm):
        n = len(u.bounds)
        lens = dict(bounds=n, points_bounds=len(u.points_bounds), log_v_all=len(u.log_v_all),
                    block=len(u.block))
        if len(set(lens.values())) != 1:
            if seq and seq[-1].startswith('trim') and lens['block'] == n + 1 and \
                    lens['points_bounds'] == n and lens['log_v_all'] == n:
                key = 'union.trim-leaves-stale-split-flag'
            else:
                key = 'union.record-length-mismatch'
            self.bad(key, 'per-ellipsoid records differ in length after %s: %r' % (seq[-1] if seq else 'compute', lens), seq)
            return False
        ok = True
        for i, b in enumerate(u.bounds):
            if not np.isclose(u.log_v_all[i], b.log_v, rtol=0, atol=1e-12):
                self.bad('union.log_v_all-stale', 'log_v_all[%d] != bounds[%d].log_v' % (i, i), seq)
                ok = False
            inside = b.contains(u.points_bounds[i])
            self.obs['points_enclosure_tests'] += len(inside)
            if not np.all(inside):
                self.bad('union.record-misaligned', 'points_bounds[%d] not enclosed by bounds[%d]' % (i, i), seq)
                ok = False
            if not u.block[i] and len(u.points_bounds[i]) < 2 * npm:
                self.bad('union.may-split-flag-wrong', 'record %d has %d points (< 2*n_points_min=%d) but may '
                         'still be split' % (i, len(u.points_bounds[i]), 2 * npm), seq)
                ok = False
        return ok

    def apply(self, u, model, op, seq):
        """Returns (ok, new_model, outcome)."""
        from scipy.special import logsumexp
        npm = u.n_points_min
        before = _snapshot(u)
        before_sets = [p.copy() for p in u.points_bounds]
        before_sum = logsumexp(u.log_v_all)
        try:
            if op == 'split':
                ret = u.split()
            elif op == 'split_no_overlap':
                ret = u.split(allow_overlap=False)
            elif op == 'trim':
                ret = u.trim()
            elif op == 'trim_easy':
                ret = u.trim(threshold=1.0)
            else:
                pts = u.sample(50)
                ret = None
        except Exception as e:
            import traceback
            tb = traceback.extract_tb(e.__traceback__)[-1]
            self.bad('union.raise.%s.%s' % (op.split('_')[0], type(e).__name__),
                     '%s raised %r at %s:%s' % (op, e, tb.filename.split('/')[-1], tb.name), seq)
            return False, model, 'raised'
        self.obs['operations'] += 1
        self.obs['operations_at_sub_double_volume'] += int(before_sum < -745.0)
        outcome = {True: 'accepted', False: 'refused', None: 'done'}[ret if ret is None else bool(ret)]
        k = op + ':' + outcome
        self.obs['outcomes'][k] = self.obs['outcomes'].get(k, 0) + 1
        after = _snapshot(u)
        trimmed = model['trimmed']
        if op == 'sample':
            if pts.shape != (50, u.n_dim) or not np.all(u.contains(pts)):
                self.bad('union.sample-not-contained', 'sample(50) returned points outside the union', seq)
                return False, model, outcome
            if after != before:
                self.bad('union.sample-changed-records', 'sample changed ellipsoids or point sets', seq)
                return False, model, outcome
        elif outcome == 'refused':
            if after != before:
                self.bad('union.refused-op-changed-state', '%s returned False but changed ellipsoids or '
                         'point sets' % op, seq)
                return False, model, outcome
        elif op.startswith('split'):
            # exactly one record replaced by two
            if len(after[0]) != len(before[0]) + 1 or len(after[1]) != len(before[1]) + 1:
                self.bad('union.split-not-one-to-two', 'successful split changed the record count from %d to %d'
                         % (len(before[0]), len(after[0])), seq)
                return False, model, outcome
            rest = list(zip(*after))
            removed = None
            for rec in zip(*before):
                if rec in rest:
                    rest.remove(rec)
                elif removed is None:
                    removed = rec
                else:
                    removed = 'many'
            if removed in (None, 'many') or len(rest) != 2:
                self.bad('union.split-not-one-to-two', 'successful split did not replace exactly one record '
                         'by two', seq)
                return False, model, outcome
            old = before_sets[before[1].index(removed[1])]
            new_idx = [after[1].index(r[1]) for r in rest]
            new = [u.points_bounds[j] for j in new_idx]
            if not np.array_equal(_sorted_rows(np.vstack(new)), _sorted_rows(old)):
                self.bad('union.split-not-partition', 'the two new point sets do not partition the old one', seq)
                return False, model, outcome
            if min(len(p) for p in new) < npm:
                self.bad('union.split-below-min-points', 'split produced a record with %d < n_points_min=%d points'
                         % (min(len(p) for p in new), npm), seq)
                return False, model, outcome
            if logsumexp(u.log_v_all) > before_sum + 1e-9:
                self.bad('union.split-volume-increase', 'successful split increased the summed volume', seq)
                return False, model, outcome
        else:  # successful trim
            if len(after[0]) != len(before[0]) - 1:
                self.bad('union.trim-not-one-record', 'successful trim changed the record count from %d to %d'
                         % (len(before[0]), len(after[0])), seq)
                return False, model, outcome
            rest = list(zip(*before))
            for rec in zip(*after):
                if rec in rest:
                    rest.remove(rec)
                else:
                    rest = None
                    break
            if rest is None or len(rest) != 1:
                self.bad('union.trim-not-one-record', 'successful trim did not remove exactly one record', seq)
                return False, model, outcome
            trimmed = trimmed + [before_sets[before[1].index(rest[0][1])]]
        model = {'trimmed': trimmed}
        # conservation: all points = construction points minus trimmed
        have = _sorted_rows(np.vstack(list(u.points_bounds) + trimmed))
        if not np.array_equal(have, self.all_sorted):
            self.bad('union.points-multiset', 'points of all ellipsoids are not the construction points '
                     'minus the trimmed ones', seq)
            return False, model, outcome
        if not self.check_records(u, seq, npm):
            return False, model, outcome
        self.obs['max_records'] = max(self.obs['max_records'], len(u.bounds))
        return True, model, outcome

    def explore(self, u, model, seq, had_split):
        if len(seq) - self.base_depth >= self.spec['depth']:
            return
        for op in OPS:
            if op == 'split_no_overlap' and self.meta['bound_class'] != 'Ellipsoid':
                continue
            u2 = copy.deepcopy(u)
            s2 = seq + [op]
            ok, m2, outcome = self.apply(u2, model, op, s2)
            self.obs['sequences'] += 1
            hs = had_split or (op.startswith('split') and outcome == 'accepted')
            if ok:
                if hs:
                    self.nontrivial += 1
                    if self.example is None and len(s2) - self.base_depth == self.spec['depth']:
                        self.example = s2
                self.explore(u2, m2, s2, hs)

    def run(self):
        from nautilus.bounds import Union, Ellipsoid, UnitCubeEllipsoidMixture
        cls = Ellipsoid if self.meta['bound_class'] == 'Ellipsoid' else UnitCubeEllipsoidMixture
        rng = np.random.default_rng(np.random.SeedSequence([self.spec['seed'], 1313, self.spec['i']]))
        u = Union.compute(self.points, enlarge_per_dim=self.meta['enlarge_per_dim'],
                          n_points_min=self.meta['n_points_min'], bound_class=cls, rng=rng,
                          unit=self.meta.get('unit', True))
        self.all_sorted = _sorted_rows(self.points)
        if not self.check_records(u, [], u.n_points_min):
            return
        # half of the point sets start the enumeration from a union that was already split twice and sampled
        # (so that e.g. "split, split, sample, trim, sample" is reached within the quick depth)
        model, seq, had_split = {'trimmed': []}, [], False
        self.base_depth = 0
        if self.spec['i'] % 2 == 1:
            for op in ('split', 'split', 'sample'):
                seq = seq + [op]
                ok, model, outcome = self.apply(u, model, op, seq)
                self.obs['sequences'] += 1
                had_split = had_split or (op == 'split' and outcome == 'accepted')
                if not ok:
                    return
            self.base_depth = len(seq)
        self.explore(u, model, seq, had_split)


def run_case(spec):
    points, meta = make_points(spec)
    ex = Explorer(spec, points, meta)
    try:
        ex.run()
    except np.linalg.LinAlgError as e:   # degenerate generated set: out of domain
        return {'status': 'skipped', 'reason': 'LinAlgError building the initial union: %r' % e, 'obs': ex.obs}
    res = {'obs': ex.obs, 'nontrivial': ex.nontrivial > 0, 'nontrivial_count': ex.nontrivial,
           'key': 'pointset-%d-%d' % (spec['seed'], spec['i']),
           'sample': {'point_set': meta, 'sequence': ex.example}}
    if ex.viols:
        res.update(status='violation', violations=list(ex.viols.values()))
    else:
        res['status'] = 'ok'
    return res
