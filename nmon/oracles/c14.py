"""C14 - equal-weight posterior is an unbiased, order-preserving resampling.

Structural post-conditions on every draw of posterior(equal_weight=True) + ensemble z-tests of the
multiplicities over many draws, on weight vectors produced by real runs.
"""
import warnings

import numpy as np

from . import samplercase
from .. import env, workloads
from ..instrument import digest_arrays, points_array

ID = 'C14'
LEVEL = 'exploration'
DECIDING = 'draws'
CHUNK = {'quick': 1, 'thorough': 1}
TIMEOUT = 2400
BOOSTS = [0.3, 1.0, 1.7, 3.0, 10.0, 1e-3, 2e-4]      # the last two: sum of r of order one, empty draws are common
LOG_P = float(np.log(1e9))
FAMILIES = ['gauss', 'plateau', 'mixture', 'islands', 'funnel', 'corr', 'periodic', 'staircase']
RULE = ('case = one real seeded run (families incl. -inf plateaus/islands so that zero-weight rows exist; blobs of '
        'several kinds) stopped in one of three states (finished; finished with exploration discarded; stopped in '
        'the middle of exploration; every second sampler writes a checkpoint file and every fourth is a new object resumed '
        'from it), then D = 200 (quick) / 1500 (thorough) draws of posterior(equal_weight=True, '
        'equal_weight_boost=b, return_blobs=True) for each b in {0.3, 1, 1.7, 3, 10, 1e-3, 2e-4}. Every draw: rows are the '
        'weighted rows in original order with multiplicity floor(r) or floor(r)+1 (exactly floor(r) for integer r), '
        'no repeats for b <= 1, log_l/blobs of repeats identical, weights all -log n, weighted posterior and '
        'statistics unchanged. Ensemble: the summed multiplicities minus D*r, overall and in eight weight-quantile '
        'groups, must stay inside the Bernstein bound at level 1e-9 (about 6.4 sigma for large variances); rows whose '
        'summed expectation over all draws is below 1e-12 must never appear. Non-trivial = (run, boost) pairs with >= 50 rows of fractional r and all draws '
        'completed; distinct by (case, state, boost).')
ASSUMPTIONS = ['rows of the weighted posterior are pairwise distinct (C03), so returned rows identify their source',
               'false-alarm probability <= ~1e-8 per (run, boost): nine two-sided Bernstein-bound tests at 2e-9 each']


def gen_cases(tier, seed):
    n = 16 if tier == 'quick' else 64
    cases = []
    for i in range(n):
        rng = env.case_rng(ID, i, seed)
        pspec = workloads.gen_problem(rng, family=FAMILIES[i % len(FAMILIES)],
                                      prior=['func', 'Prior_array', 'func_inplace'][i % 3],
                                      blobs=['float', 'none', 'multi', 'array', 'struct', 'int'][i % 6],
                                      vectorized=(i % 4 != 3))
        cfg = workloads.gen_cfg(rng, pspec, pool='none', n_batch=[100, 50, 16][i % 3], filepath=bool(i % 2))
        cfg['n_eff'] = int(rng.choice([300, 600, 1200]))
        case = {'i': i, 'seed': seed, 'prob': pspec, 'cfg': cfg, 'state': ['final', 'discard', 'mid'][i % 3],
                'draws': 200 if tier == 'quick' else 1500}
        if i % 4 == 0:
            # a peaked likelihood with many live points: thousands of stored rows of negligible weight
            case['prob'] = workloads.gen_problem(rng, family='gauss', d=3, prior='func', blobs='none', vectorized=True)
            case['prob']['par']['sig'] = [0.02 * (h - l) for l, h in zip(case['prob']['lo'], case['prob']['hi'])]
            case['cfg'] = dict(cfg, n_live=400, n_batch=100, n_networks=0, n_eff=500, periodic=None)
            case['state'] = 'final'
            case['extra_draws'] = 8000 if tier == 'quick' else 40000
        cases.append(case)
    return cases


def _arr(pts):
    return points_array(pts)


def run_case(spec):
    prob = workloads.Problem(spec['prob'])
    cfg = spec['cfg']
    obs = dict(draws=0, rows_returned=0, weighted_rows=0, zero_weight_rows=0, rows_with_fractional_r=0,
               z_tests=0, empty_draws=0, negligible_weight_row_draws=0, resumed_samplers=0, file_backed_samplers=0, z_abs_max=0.0, bernstein_ratio_max=0.0, boosts_completed=0, repeats_seen=0)
    viols = []
    worst = {}
    obs['file_backed_samplers'] = int(bool(cfg.get('filepath')))

    def bad(key, what, **kw):
        if key not in [v['key'] for v in viols]:
            viols.append(dict(key=key, what=what, case=samplercase.case_key(spec), state=spec['state'], **kw))

    import tempfile
    import os
    tmpdir = tempfile.mkdtemp(prefix='nmon-c14-')
    path = os.path.join(tmpdir, 'ck.hdf5') if cfg.get('filepath') else None
    s = workloads.make_sampler(prob, cfg, filepath=path, resume=False)
    try:
        with warnings.catch_warnings(), np.errstate(all='ignore'):
            warnings.simplefilter('ignore')
            from ..instrument import Hooks, VirtualClock
            try:
                with Hooks([], proposal_budget=30_000_000, clock=VirtualClock()):
                    if spec['state'] == 'mid':
                        s.run(n_like_max=8 * cfg['n_live'] + 3 * cfg['n_batch'], **workloads.run_kwargs(cfg))
                    else:
                        s.run(n_like_max=40000, **workloads.run_kwargs(cfg, discard_exploration=(spec['state'] == 'discard')))
            except workloads.BudgetExceeded as e:
                return {'status': 'skipped', 'reason': 'run before the draws: %s' % e, 'obs': obs}
            if path is not None and spec['i'] % 4 == 3 and os.path.exists(path):
                # draws from a sampler object resumed from its checkpoint
                workloads.close_sampler(s)
                s = workloads.make_sampler(prob, cfg, filepath=path, resume=True)
                obs['resumed_samplers'] = 1
            if sum(len(p) for p in s.points) == 0 or np.sum(s.shell_n) == 0:
                return {'status': 'skipped', 'reason': 'empty view', 'obs': obs}
            has_blobs = s.blobs is not None
            base = s.posterior(return_blobs=has_blobs)
            P, lw, ll = _arr(base[0]), np.asarray(base[1]), np.asarray(base[2])
            bl = base[3] if has_blobs else None
            n = len(P)
            obs['weighted_rows'] = n
            obs['zero_weight_rows'] = int(np.sum(np.isneginf(lw)))
            index = {row.tobytes(): j for j, row in enumerate(np.ascontiguousarray(P))}
            if len(index) != n:
                return {'status': 'skipped', 'reason': 'weighted rows not unique (C03 territory)', 'obs': obs}

            def state_digest():
                out = s.posterior(return_blobs=has_blobs)
                lz = s.log_z
                return digest_arrays(_arr(out[0]), out[1], out[2], out[3] if has_blobs else None,
                                     np.array([np.nan if lz is None else lz, s.n_eff, s.eta], dtype=float),
                                     np.asarray(s.shell_n), np.asarray(s.shell_log_v, dtype=float))
            d0 = state_digest()
            n_nontrivial = 0
            for boost in BOOSTS:
                r = np.exp(lw - np.amax(lw)) * boost
                fl = np.floor(r)
                frac = r - fl
                counts = np.zeros(n)
                for _ in range(spec['draws']):
                    out = s.posterior(equal_weight=True, equal_weight_boost=boost, return_blobs=has_blobs)
                    Q, qw, ql = _arr(out[0]), np.asarray(out[1]), np.asarray(out[2])
                    obs['draws'] += 1
                    obs['rows_returned'] += len(Q)
                    if not (len(Q) == len(qw) == len(ql)) or (has_blobs and len(out[3]) != len(Q)):
                        bad('equalweight.length-mismatch', 'returned arrays differ in length: %d points, %d weights, %d '
                            'log_l' % (len(Q), len(qw), len(ql)), boost=boost)
                        break
                    if len(Q) == 0:
                        obs['empty_draws'] += 1
                        continue
                    try:
                        idx = np.array([index[row.tobytes()] for row in np.ascontiguousarray(Q)])
                    except KeyError:
                        bad('equalweight.row-not-from-posterior', 'a returned row is not a row of the weighted posterior',
                            boost=boost)
                        break
                    if np.any(np.diff(idx) < 0):
                        bad('equalweight.order-not-preserved', 'returned rows are not in the order of the weighted '
                            'posterior', boost=boost)
                        break
                    m = np.bincount(idx, minlength=n)
                    obs['repeats_seen'] += int(np.sum(m > 1))
                    wrong = (m < fl) | (m > fl + 1) | ((frac == 0) & (m != fl))
                    if np.any(wrong):
                        j = int(np.flatnonzero(wrong)[0])
                        bad('equalweight.multiplicity', 'row %d with r = %.6g was returned %d times (boost %g)'
                            % (j, r[j], m[j], boost), boost=boost)
                        break
                    if boost <= 1 and np.any(m > 1):
                        bad('equalweight.repeat-with-boost-le-1', 'a row was repeated although boost = %g <= 1' % boost)
                        break
                    if not np.array_equal(ql, ll[idx]):
                        bad('equalweight.log_l-misaligned', 'log_l of returned rows differs from the weighted rows', boost=boost)
                        break
                    if has_blobs and not np.array_equal(out[3], bl[idx]):
                        bad('equalweight.blob-misaligned', 'blobs of returned rows differ from the weighted rows', boost=boost)
                        break
                    if not np.allclose(qw, -np.log(len(Q)), rtol=0, atol=1e-12):
                        bad('equalweight.weights-not-uniform', 'returned weights are not all -log n (first %r, n=%d)'
                            % (float(qw[0]), len(Q)), boost=boost)
                        break
                    counts += m
                else:
                    D = spec['draws']
                    # rows whose expected number of appearances over ALL draws is below 1e-12 in total: seeing one at all
                    # has probability < 1e-12 under the property (union bound), whatever the resolution of the generator
                    tiny = (r > 0) & (r < 1e-18)
                    while np.sum(r[tiny]) * D >= 1e-12 and np.any(tiny):
                        tiny &= r < 0.1 * np.max(r[tiny])
                    obs['negligible_weight_row_draws'] += int(np.sum(tiny)) * D
                    if np.any(tiny) and np.sum(counts[tiny]) > 0:
                        j = int(np.flatnonzero(tiny & (counts > 0))[0])
                        bad('equalweight.negligible-weight-row-returned', 'row %d with r = %.3g was returned %d times in %d '
                            'draws (boost %g); %d rows with summed r = %.3g are expected to appear %.3g times in total'
                            % (j, r[j], int(counts[j]), D, boost, int(np.sum(tiny)), float(np.sum(r[tiny])),
                               float(np.sum(r[tiny]) * D)), boost=boost)
                    var = D * frac * (1 - frac)
                    order = np.argsort(r, kind='stable')
                    groups = [np.arange(n)] + [g for g in np.array_split(order, 8)]
                    for gi, g in enumerate(groups):
                        v = np.sum(var[g])
                        if v <= 0:
                            continue
                        dev = float(np.sum(counts[g] - D * r[g]))
                        z = dev / np.sqrt(v)
                        obs['z_tests'] += 1
                        if abs(z) > obs['z_abs_max']:
                            obs['z_abs_max'] = abs(z)
                            worst.update(z=z, var=float(v), group=gi, boost=boost, rows=len(g))
                        # Bernstein bound for a sum of independent terms bounded by 1 (rigorous for small
                        # variances, where the normal approximation is skewed): P(|dev| >= t) <= 2e-9
                        t = LOG_P / 3 + np.sqrt((LOG_P / 3) ** 2 + 2 * LOG_P * v)
                        obs['bernstein_ratio_max'] = max(obs['bernstein_ratio_max'], abs(dev) / t)
                        if abs(dev) > t:
                            bad('equalweight.expectation', 'summed multiplicities over %d draws deviate from D*r by z = '
                                '%.1f, beyond the 1e-9 Bernstein bound (group %d of weight-quantile groups, boost %g)' % (D, z, gi, boost), boost=boost)
                            break
                    obs['boosts_completed'] += 1
                    nf = int(np.sum(frac > 0))
                    obs['rows_with_fractional_r'] += nf
                    n_nontrivial += int(nf >= 50)
                    continue
                break
            # many cheap extra draws aimed at the rows of negligible weight (a generator of limited resolution returns
            # them at a rate of ~1e-7 per row and draw instead of never)
            if not viols and spec.get('extra_draws'):
                boost = 1.0
                r = np.exp(lw - np.amax(lw)) * boost
                D2 = int(spec['extra_draws'])
                tiny = (r > 0) & (r < 1e-18)
                while np.sum(r[tiny]) * D2 >= 1e-12 and np.any(tiny):
                    tiny &= r < 0.1 * np.max(r[tiny])
                if np.sum(tiny) >= 100:
                    Pc = np.ascontiguousarray(P)
                    void = np.dtype((np.void, Pc.dtype.itemsize * Pc.shape[1]))
                    tv = Pc[tiny].view(void).ravel()
                    hits = 0
                    for _ in range(D2):
                        Q = np.ascontiguousarray(_arr(s.posterior(equal_weight=True, equal_weight_boost=boost)[0]))
                        if len(Q):
                            hits += int(np.count_nonzero(np.isin(Q.view(void).ravel(), tv)))
                    obs['draws'] += D2
                    obs['negligible_weight_row_draws'] += int(np.sum(tiny)) * D2
                    if hits:
                        bad('equalweight.negligible-weight-row-returned', '%d rows with r < %.3g (summed r = %.3g) were '
                            'returned %d times in %d draws at boost 1; expected %.3g times'
                            % (int(np.sum(tiny)), float(np.max(r[tiny])), float(np.sum(r[tiny])), hits, D2,
                               float(np.sum(r[tiny]) * D2)))
            if state_digest() != d0:
                bad('equalweight.weighted-posterior-changed', 'the weighted posterior or a sampler statistic changed '
                    'after equal-weight draws')
    except np.linalg.LinAlgError as e:
        return {'status': 'skipped', 'reason': repr(e), 'obs': obs}
    finally:
        workloads.close_sampler(s)
        import shutil
        shutil.rmtree(tmpdir, ignore_errors=True)
    res = {'obs': obs, 'nontrivial': n_nontrivial > 0, 'nontrivial_count': n_nontrivial,
           'key': samplercase.case_key(spec) + '|' + spec['state'],
           'sample': {'state': spec['state'], 'weighted_rows': n, 'zero_weight_rows': obs['zero_weight_rows'],
                      'z_abs_max': obs['z_abs_max'], 'worst': worst}}
    if viols:
        res.update(status='violation', violations=viols)
    else:
        res['status'] = 'ok'
    return res
