"""C15 - Prior maps the unit cube to parameters as declared.

Reference interpreter of the declaration list, run in lock-step with the real
nautilus.Prior over an exhaustive enumeration of declaration sequences.
"""
import itertools
import numbers

import numpy as np

ID = 'C15'
LEVEL = 'exploration'
EXHAUSTIVE = True
DECIDING = 'declarations'
CHUNK = {'quick': 1, 'thorough': 4}
TIMEOUT = 1800
import fractions

FIXED_VALUES = [0.1, 16777217, np.float32(2.5), np.int64(4), fractions.Fraction(1, 3), np.float64(-0.7), True]      # 0.1 and 2**24+1 are not float32 numbers
OPS = ['free_auto', 'free_named', 'uniform', 'norm', 'fixed', 'link_first', 'link_last',
       'auto_link_last', 'dup', 'future_auto_name', 'self_link', 'auto_self_link',
       'link_undeclared', 'nonstring_key', 'list_dist']
RULE = ('exhaustive enumeration of all declaration sequences up to length 3 (quick) / 5 (thorough) over '
        'the alphabet ' + ', '.join(OPS) + '; after every declaration the real Prior is compared with a '
        'reference interpreter (keys unique, rejected declarations raise ValueError/TypeError and leave '
        'keys/dists unchanged); at the end of every sequence dimensionality, unit_to_physical and '
        'unit_to_dictionary are checked for inputs of shape (d,) and (n,d); every sequence is executed a second time with '
        'the transforms also evaluated after every accepted declaration (a prior that is used and then extended). Non-trivial = a sequence with '
        '>= 1 accepted free parameter (so the transform checks ran); every enumerated sequence is distinct.')
ASSUMPTIONS = ['inverse CDF compared with scipy ppf(u) / isf(1-u) at rel. 1e-9 for u in [1e-3, 1-1e-3]; '
               'extreme u only checked for shape and monotonicity',
               'an auto-generated key that would collide may either be rejected with ValueError or '
               'replaced by a fresh unique key']


def gen_cases(tier, seed):
    if tier == 'quick':
        return [{'prefix': [o], 'extend': 2, 'seed': seed} for o in OPS]
    cases = [{'prefix': [o], 'extend': 0, 'seed': seed} for o in OPS]
    cases += [{'prefix': [a, b], 'extend': 3, 'seed': seed} for a in OPS for b in OPS]
    return cases


class Ref:
    """Reference model: list of (key, kind, payload)."""

    def __init__(self):
        self.items = []

    def keys(self):
        return [k for k, _, _ in self.items]

    def target(self, key):
        kind, payload = next((kd, p) for k, kd, p in self.items if k == key)
        while kind == 'link':
            key = payload
            kind, payload = next((kd, p) for k, kd, p in self.items if k == key)
        return key


def _args(op, ref, n_named):
    """Concrete (key, dist) of an abstract op in the current state."""
    from scipy.stats import norm
    keys = ref.keys()
    new = 'p%d' % n_named
    first = keys[0] if keys else 'nope_first'
    last = keys[-1] if keys else 'nope_last'
    return {
        'free_auto': (None, (0, 1)),
        'free_named': (new, (0, 1)),
        'uniform': (new, (-2.0, 3.0)),
        'norm': (new, norm(loc=1.0, scale=2.0)),
        # a fixed parameter may be any number: Python float/int, NumPy scalars (an element of a catalogue array), Fraction
        'fixed': (new, FIXED_VALUES[n_named % len(FIXED_VALUES)]),
        'link_first': (new, first),
        'link_last': (new, last),
        'auto_link_last': (None, last),
        'dup': (last if keys else new, (0, 1)),
        'future_auto_name': ('x_%d' % (len(keys) + 1), (0, 1)),
        'self_link': (new, new),
        'auto_self_link': (None, 'x_%d' % len(keys)),
        'link_undeclared': (new, 'never_declared'),
        'nonstring_key': (3, (0, 1)),
        'list_dist': (new, [0, 1]),
    }[op]


def _expect(key, dist, ref):
    """('ok', kind, payload) or ('reject', ExceptionTypes)."""
    keys = ref.keys()
    if key is not None and not isinstance(key, str):
        return ('reject', (TypeError,))
    if key is not None and key in keys:
        return ('reject', (ValueError,))
    eff_key = key if key is not None else 'x_%d' % len(keys)
    if isinstance(dist, tuple):
        from scipy.stats import uniform
        return ('ok', 'free', uniform(loc=dist[0], scale=dist[1] - dist[0]))
    if isinstance(dist, numbers.Number):
        return ('ok', 'fixed', dist)
    if hasattr(dist, 'isf'):
        return ('ok', 'free', dist)
    if isinstance(dist, str):
        if dist not in keys or dist == eff_key:
            return ('reject', (ValueError,))
        return ('ok', 'link', dist)
    return ('reject', (TypeError,))


def _state(prior):
    return (list(prior.keys), [id(d) for d in prior.dists], len(prior.dists))


def _close(a, b):
    a = np.asarray(a, dtype=float)
    b = np.asarray(b, dtype=float)
    with np.errstate(invalid='ignore'):
        return np.all((a == b) | (np.abs(a - b) <= 1e-12 + 1e-9 * np.abs(b)))


U_CACHE = {}


def _inputs(d, rng):
    if d not in U_CACHE:
        n = 7
        u = rng.uniform(1e-3, 1 - 1e-3, size=(n, d))
        u.sort(axis=0)
        ext = rng.random((5, d))
        ext[0] = 0.0
        ext[1] = np.nextafter(1.0, 0.0)
        ext[2] = 1e-17
        ext.sort(axis=0)
        U_CACHE[d] = (u, ext)
    return U_CACHE[d]


def _check_transforms(prior, ref, rng, bad):
    free = [(k, p) for k, kind, p in ref.items if kind == 'free']
    d = len(free)
    got = prior.dimensionality()
    if got != d:
        bad('prior.dimensionality', 'dimensionality() = %r, %d free parameters declared' % (got, d))
        return 0
    if d == 0:
        return 0
    u2, ext = _inputs(d, rng)
    n_checks = 0
    for u in (u2, u2[3], ext, ext[4], u2.astype(np.float32)):
        u_in = u.copy()
        single = u.dtype != np.float64
        try:
            phys = prior.unit_to_physical(u)
            dic = prior.unit_to_dictionary(u)
        except Exception as e:
            bad('prior.transform-raises', 'transform raised %r for input shape %s' % (e, u.shape))
            return n_checks
        n_checks += 1
        if not np.array_equal(u, u_in):
            bad('prior.input-modified', 'transform modified its argument')
        if np.shape(phys) != u.shape:
            bad('prior.transform-shape', 'unit_to_physical output shape %s for input shape %s'
                % (np.shape(phys), u.shape))
            return n_checks
        interior = (u is u2) or (u.ndim == 1 and np.all((u >= 1e-3) & (u <= 1 - 1e-3)))
        for i, (k, dist) in enumerate(free):
            col = phys[..., i]
            if interior and single:
                want32 = dist.ppf(u[..., i].astype(float))
                if not np.all(np.abs(np.asarray(col, dtype=float) - want32) <= 1e-5 * (1 + np.abs(want32))):
                    bad('prior.transform-value', 'free parameter %d (%s) is not the inverse CDF of its own unit coordinate '
                        '(float32 input)' % (i, k))
            elif interior:
                if not (_close(col, dist.ppf(u[..., i])) or _close(col, dist.isf(1 - u[..., i]))):
                    bad('prior.transform-value', 'free parameter %d (%s) is not the inverse CDF of its '
                        'own unit coordinate' % (i, k), got=np.asarray(col).tolist(),
                        want=np.asarray(dist.ppf(u[..., i])).tolist())
            if u.ndim == 2:
                with np.errstate(invalid='ignore'):
                    if np.any(np.diff(col) < 0):
                        bad('prior.not-monotone', 'free parameter %d not monotone in its unit coordinate' % i)
        # dictionary
        if len(prior.keys) != len(set(prior.keys)):
            bad('prior.duplicate-key', 'key list has duplicates: %r' % (prior.keys,))
        if set(dic.keys()) != set(ref.keys()) or len(dic) != len(ref.items):
            bad('prior.dict-keys', 'dictionary keys %r, declared %r' % (sorted(dic), ref.keys()))
            return n_checks
        fi = 0
        vals = {}
        for k, kind, p in ref.items:
            if kind == 'free':
                vals[k] = phys[..., fi]
                fi += 1
            elif kind == 'fixed':
                vals[k] = np.full(np.shape(phys[..., 0]), float(p))      # exactly the declared number, whatever the input dtype
        for k, kind, p in ref.items:
            want = vals[ref.target(k)]
            gotv = np.asarray(dic[k])
            if gotv.dtype == object:          # e.g. ones * Fraction: compare numerically
                gotv = gotv.astype(float)
            if gotv.shape != np.shape(want):
                bad('prior.dict-shape', 'dictionary entry %s has shape %s, want %s'
                    % (k, gotv.shape, np.shape(want)))
            elif not np.array_equal(gotv, want, equal_nan=True):
                key = {'free': 'prior.dict-free-value', 'fixed': 'prior.fixed-not-constant',
                       'link': 'prior.link-target'}[kind]
                bad(key, 'dictionary entry %s (%s) differs from its declaration' % (k, kind),
                    got=gotv.tolist(), want=np.asarray(want).tolist())
    return n_checks


def _run_sequence(seq, rng, obs, interleave=False):
    """interleave=True: the transforms are also evaluated after EVERY accepted declaration (a prior that has been
    used - e.g. by an earlier Sampler run - and is then extended), not only at the end."""
    from nautilus import Prior
    prior = Prior()
    ref = Ref()
    n_named = 0
    viol = []

    def bad(key, what, **kw):
        viol.append(dict(key=key, what=what, sequence=list(seq), **kw))

    for step, op in enumerate(seq):
        key, dist = _args(op, ref, n_named)
        n_named += 1
        exp = _expect(key, dist, ref)
        auto_collision = key is None and ('x_%d' % len(ref.items)) in ref.keys()
        before = _state(prior)
        raised = None
        try:
            prior.add_parameter(key, dist) if key is not None else prior.add_parameter(dist=dist)
        except Exception as e:
            raised = e
        obs['declarations'] += 1
        after = _state(prior)
        shown = 'step %d %s add_parameter(key=%r, dist=%r)' % (step, op, key, dist if not hasattr(dist, 'isf') else 'norm(1,2)')
        if raised is not None:
            obs['rejected'] += 1
            if after != before:
                bad('prior.key-appended-before-validation',
                    '%s raised %r but left the prior changed: keys %r -> %r, len(dists) %d -> %d'
                    % (shown, raised, before[0], after[0], before[2], after[2]))
                return viol, False
            if not isinstance(raised, (ValueError, TypeError)):
                bad('prior.wrong-exception-type', '%s raised %r, not ValueError/TypeError' % (shown, raised))
            elif exp[0] == 'ok' and not auto_collision:
                bad('prior.valid-declaration-rejected', '%s raised %r' % (shown, raised))
            elif exp[0] == 'reject' and not isinstance(raised, exp[1]) and not auto_collision:
                # ValueError vs TypeError mix-up is tolerated by the property text; count only
                obs['other_documented_exception'] += 1
            continue
        # accepted
        obs['accepted'] += 1
        if len(after[0]) != len(before[0]) + 1 or after[2] != before[2] + 1 or after[0][:-1] != before[0]:
            bad('prior.append-shape', '%s accepted but keys/dists did not grow by exactly one' % shown)
            return viol, False
        new_key = after[0][-1]
        if new_key in before[0]:
            bad('prior.auto-key-collision' if key is None else 'prior.duplicate-key',
                '%s accepted although key %r already exists: keys %r' % (shown, new_key, after[0]))
            return viol, False
        if exp[0] == 'reject':
            bad('prior.accepted-malformed', '%s was accepted' % shown)
            return viol, False
        if key is not None and new_key != key:
            bad('prior.wrong-key', '%s stored key %r' % (shown, new_key))
            return viol, False
        ref.items.append((new_key, exp[1], exp[2]))
        if interleave and step < len(seq) - 1:
            obs['transform_checks_between_declarations'] += _check_transforms(prior, ref, rng, bad)
            if viol:
                return viol, False
    had_free = any(kind == 'free' for _, kind, _ in ref.items)
    obs['transform_checks'] += _check_transforms(prior, ref, rng, bad)
    return viol, had_free


def run_case(spec):
    rng = np.random.default_rng(np.random.SeedSequence([spec['seed'], 15]))
    obs = dict(sequences_interleaved=0, transform_checks_between_declarations=0, sequences=0, declarations=0, accepted=0, rejected=0, transform_checks=0,
               other_documented_exception=0, sequences_with_links=0)
    viols = {}
    n_nontrivial = 0
    example = None
    for k in range(spec['extend'] + 1):
        for ext in itertools.product(OPS, repeat=k):
            seq = list(spec['prefix']) + list(ext)
            obs['sequences'] += 1
            v, had_free = _run_sequence(seq, rng, obs)
            n_nontrivial += int(had_free)
            if len(seq) > 1:
                v2, _ = _run_sequence(seq, rng, obs, interleave=True)
                obs['sequences_interleaved'] += 1
                v = v + [dict(x, evaluated_between_declarations=True) for x in v2]
            if any(o.startswith('link') or o == 'auto_link_last' for o in seq):
                obs['sequences_with_links'] += 1
            if had_free and example is None and len(seq) == len(spec['prefix']) + spec['extend']:
                example = seq
            for x in v:
                viols.setdefault(x['key'], x)     # one witness per mechanism
    res = {'obs': obs, 'nontrivial': n_nontrivial > 0, 'nontrivial_count': n_nontrivial,
           'key': '/'.join(spec['prefix']) + '+%d' % spec['extend'],
           'sample': {'sequence': example}}
    if viols:
        res.update(status='violation', violations=list(viols.values()))
    else:
        res['status'] = 'ok'
    return res
