"""C16 - periodic phase shift is a bijection of the unit cube.

Post-condition monitor on the real PhaseShift.compute / PhaseShift.transform with
boundary-directed inputs (floating-point neighbours of the wrap position, of 0 and of 1).
"""
import numpy as np

ID = 'C16'
LEVEL = 'exploration'
DECIDING = 'wrap_neighbour_points'
CHUNK = {'quick': 2, 'thorough': 4}
TIMEOUT = 600
RULE = ('case = one batch of PhaseShift objects (centres drawn at random or computed by the real '
        'PhaseShift.compute from generated clouds: uniform, straddling the 0/1 boundary, single '
        'point, tied gaps, duplicates, points at 0.0 and nextafter(1,0); periodic index sets in any order, not only '
        'ascending); inputs per centre are the '
        'wrap position of the forward and of the inverse map with their +-1..4 floating-point '
        'neighbours, 0, nextafter(0,1), nextafter(1,0), denormals and random interior points. '
        'Non-trivial = a batch in which inputs on BOTH sides of a wrap position were mapped (the '
        'output jumps across the boundary); distinct by (kind, dimension, periodic set, rng stream).')
ASSUMPTIONS = ['inputs are 2-D arrays of points in [0,1)^d as the sampler passes them',
               'round trip is demanded to 1e-12 circular distance, gap placement to 1e-12']

CLOUDS = ['uniform', 'straddle', 'single', 'two_tied', 'grid_tied', 'duplicates', 'edges',
          'tight', 'straddle_narrow']


def gen_cases(tier, seed):
    n_batches = 24 if tier == 'quick' else 240
    n_centres = 100 if tier == 'quick' else 900
    cases = []
    for i in range(n_batches):
        kind = 'centres' if i % 3 == 0 else 'cloud'
        cases.append({'kind': kind, 'i': i, 'seed': seed, 'n': n_centres,
                      'cloud': CLOUDS[(i // 3 * 2 + i % 3) % len(CLOUDS)]})
    return cases


def _cloud(rng, kind, n_dim):
    n = int(rng.integers(2, 200))
    if kind == 'uniform':
        p = rng.random((n, n_dim))
    elif kind in ('straddle', 'straddle_narrow'):
        w = 0.2 if kind == 'straddle' else 10.0 ** rng.uniform(-12, -2)
        p = (rng.normal(0.0, w, (n, n_dim)) + rng.choice([0.0, 1.0, 0.999, 0.001], n_dim)) % 1
    elif kind == 'single':
        p = rng.random((1, n_dim))
    elif kind == 'two_tied':
        a = rng.random(n_dim)
        p = np.vstack([a, (a + 0.5) % 1])
    elif kind == 'grid_tied':
        k = int(rng.integers(2, 9))
        p = (np.arange(k)[:, None] / k + rng.random(n_dim)) % 1
    elif kind == 'duplicates':
        p = rng.random((n, n_dim))
        p = p[rng.integers(0, n, 2 * n)]
    elif kind == 'edges':
        p = rng.random((n, n_dim))
        p[0] = 0.0
        p[-1] = np.nextafter(1.0, 0.0)
    else:  # tight
        p = 0.5 + 1e-9 * rng.normal(size=(n, n_dim))
    p = np.where(p >= 1.0, np.nextafter(1.0, 0.0), p)
    p = np.where(p < 0.0, 0.0, p)
    return p


def _neighbours(x, k=4):
    out = [x]
    lo = hi = x
    for _ in range(k):
        lo = np.nextafter(lo, -np.inf)
        hi = np.nextafter(hi, np.inf)
        out += [lo, hi]
    return out


def _directed(c, rng):
    vals = []
    for w in ((c - 0.5) % 1, (0.5 - c) % 1, (c + 0.5) % 1, c, (1 - c) % 1):
        vals += _neighbours(float(w))
    vals += [0.0, np.nextafter(0.0, 1.0), np.nextafter(1.0, 0.0), 5e-324, 1e-310, 1e-17, 1e-16,
             1.1102230246251565e-16, 2.220446049250313e-16, 0.5, np.nextafter(0.5, 0), np.nextafter(0.5, 1)]
    vals += list(rng.random(12))
    v = np.array(vals, dtype=float)
    v = v[(v >= 0) & (v < 1)]
    return v


def _circ(a, b):
    d = np.abs(a - b)
    return np.minimum(d, 1 - d)


def run_case(spec):
    from nautilus.bounds.periodic import PhaseShift
    rng = np.random.default_rng(np.random.SeedSequence([spec['seed'], 16, spec['i']]))
    obs = dict(centres=0, points=0, wrap_neighbour_points=0, outputs_equal_one=0,
               clouds=0, wraps_seen_both_sides=0, inverse_points=0, unsorted_index_sets=0, odd_nonperiodic_values=0)
    viol = []

    def bad(key, what, **kw):
        if len(viol) < 5:
            viol.append(dict(key=key, what=what, **kw))

    both_sides = 0
    for j in range(spec['n']):
        n_dim = int(rng.integers(2, 7))
        n_per = int(rng.integers(1, n_dim + 1))
        periodic = rng.choice(n_dim, n_per, replace=False)      # any order: [2, 0] is as valid as [0, 2]
        if j % 3 == 0:
            periodic = np.sort(periodic)
        obs['unsorted_index_sets'] += int(np.any(np.diff(periodic) < 0))
        if spec['kind'] == 'centres':
            ps = PhaseShift()
            ps.periodic = periodic
            ps.centers = rng.random(n_per)
            if j % 7 == 0:
                ps.centers[0] = [0.0, 0.5, np.nextafter(0.5, 0), np.nextafter(0.5, 1), 0.25,
                                 np.nextafter(1.0, 0)][(j // 7) % 6]
            cloud = None
        else:
            cloud = _cloud(rng, spec['cloud'], n_dim)
            ps = PhaseShift.compute(cloud, periodic)
            obs['clouds'] += 1
            if not (np.all(ps.centers >= 0) and np.all(ps.centers < 1)):
                bad('phaseshift.centre-out-of-range', 'computed centre outside [0,1)',
                    centres=ps.centers.tolist())
            # gap placement: shifted construction points fill [0.5-L/2, 0.5+L/2]
            y = ps.transform(cloud)
            for k, dim in enumerate(periodic):
                xs = np.sort(cloud[:, dim])
                gaps = np.append(np.diff(xs), xs[0] - (xs[-1] - 1))
                length = 1.0 - np.amax(gaps)
                lo, hi = np.amin(y[:, dim]), np.amax(y[:, dim])
                if abs(lo - (0.5 - length / 2)) > 1e-12 or abs(hi - (0.5 + length / 2)) > 1e-12:
                    bad('phaseshift.gap-placement',
                        'shifted construction points do not occupy the interval of length '
                        '1-largest_gap centred at 0.5', lo=float(lo), hi=float(hi),
                        want=[0.5 - length / 2, 0.5 + length / 2], cloud_kind=spec['cloud'],
                        column=xs.tolist()[:50])
        obs['centres'] += 1
        cols = [_directed(float(c), rng) for c in ps.centers]
        n = max(len(c) for c in cols)
        x = rng.random((n, n_dim))
        # non-periodic coordinates are none of the shift's business, whatever they are (query points of contains() need
        # not lie in the cube): also exactly 0, exactly 1 and values outside [0,1)
        odd = np.array([0.0, 1.0, np.nextafter(1.0, 0.0), np.nextafter(1.0, 2.0), -0.25, 1.75, 5e-324, -0.0])
        for dim in np.setdiff1d(np.arange(n_dim), periodic):
            x[:len(odd), dim] = odd[rng.permutation(len(odd))][:n]
            obs['odd_nonperiodic_values'] += min(len(odd), n)
        for k, dim in enumerate(periodic):
            x[:len(cols[k]), dim] = cols[k]
        x0 = x.copy()
        for inverse in (False, True):
            y = ps.transform(x, inverse=inverse)
            if not np.array_equal(x, x0):
                bad('phaseshift.input-modified', 'transform modified its argument in place')
            obs['points'] += x.size
            if inverse:
                obs['inverse_points'] += x.size
            nonper = np.setdiff1d(np.arange(n_dim), periodic)
            if not np.array_equal(y[:, nonper], x[:, nonper]):
                bad('phaseshift.nonperiodic-changed', 'a non-periodic coordinate was changed')
            yp = y[:, periodic]
            out = ~((yp >= 0) & (yp < 1))
            if np.any(out):
                r, k = np.argwhere(out)[0]
                val = float(yp[r, k])
                if val == 1.0:
                    obs['outputs_equal_one'] += int(np.sum(yp == 1.0))
                    key = 'phaseshift.mod-returns-one'
                else:
                    key = 'phaseshift.out-of-range'
                bad(key, 'transform(inverse=%s) maps %r to %r, outside [0,1)'
                    % (inverse, float(x[r, periodic[k]]), val),
                    centre=float(ps.centers[k]), x=float(x[r, periodic[k]]).hex(), y=val.hex(),
                    inverse=inverse)
            back = ps.transform(np.where(out, 0.0, yp) if False else y, inverse=not inverse)
            ok_rows = ~np.any(out, axis=1)
            d = _circ(back[:, periodic], x[:, periodic])[ok_rows]
            if d.size and np.amax(d) > 1e-12:
                bad('phaseshift.roundtrip', 'inverse(transform(x)) differs from x by %g (circular)'
                    % float(np.amax(d)), inverse_first=inverse)
            # how many directed points really sat next to a wrap (output jumps across the boundary)
            for k, dim in enumerate(periodic):
                col_in = x[:len(cols[k]), dim]
                col_out = y[:len(cols[k]), dim]
                near = (col_out < 1e-9) | (col_out > 1 - 1e-9)
                obs['wrap_neighbour_points'] += int(np.sum(near))
                if np.any(col_out[near] < 0.5) and np.any(col_out[near] > 0.5):
                    both_sides += 1
    obs['wraps_seen_both_sides'] = both_sides
    res = {'obs': obs, 'nontrivial': both_sides > 0,
           'key': '%s/%s/%d/%d' % (spec['kind'], spec['cloud'], spec['i'], spec['seed'])}
    if viol:
        res.update(status='violation', violations=viol)
    else:
        res.update(status='ok', sample={'last_centres': ps.centers.tolist(),
                                        'last_periodic': periodic.tolist(),
                                        'last_inputs_hex': [float(v).hex() for v in cols[0][:6]]})
    return res
