"""Shared case generation / execution for the sampler-level monitors (C01, C02, C03, C10, C12)."""
import traceback

import numpy as np

from .. import drive, env, workloads
from ..workloads import Problem


def gen_cases(prop, tier, seed, n_quick, n_thorough, families, history_kind='mixed', pools=('none', 'none', 'none', 's2', 'none', 'none', 'l2', 'none'),
              **fixed):
    n = n_quick if tier == 'quick' else n_thorough
    cases = []
    for i in range(n):
        rng = env.case_rng(prop, i, seed)
        fam = families[i % len(families)]
        over = {k: (v[i % len(v)] if isinstance(v, (list, tuple)) else v) for k, v in fixed.items()}
        pool = over.pop('pool', None) or str(pools[(i * 5 + i // len(families)) % len(pools)])
        prior = over.pop('prior', None)
        if prior is None and pool in ('l2', 'l3', 'l4', 'b2') and i % 2 == 0:
            prior = 'func_inplace'      # a prior that modifies its argument, evaluated next to a likelihood pool
        pspec = workloads.gen_problem(rng, family=fam, prior=prior, blobs=over.pop('blobs', None),
                                      vectorized=over.pop('vectorized', None))
        if pool in ('l2', 'b2', 'l4', 'l3'):
            pspec['vectorized'] = False      # the likelihood pool is only used for scalar likelihoods
        cfg = workloads.gen_cfg(rng, pspec, pool=pool, networks=over.pop('networks', None),
                                n_batch=over.pop('n_batch', None), filepath=over.pop('filepath', None))
        cfg.update(over)
        if pool in ('s2', 'b2') and cfg['periodic'] is None and i % 2 == 0:
            # sampler pool + periodic parameters: the pool path of NautilusBound.sample handles the phase shift itself
            cfg['periodic'] = [int(v) for v in rng.choice(pspec['d'], int(rng.integers(1, pspec['d'] + 1)), replace=False)]
        empty_shells = (i % 6 == 5 and pool == 'none')
        if empty_shells:
            # the configuration of tests/test_sampler.py::test_sampler_empty_shells: one update per bound, so some
            # shells (possibly the first) stay empty and are removed at the end of exploration
            cfg.update(n_update=1, n_live=int(rng.choice([10, 12, 15])), n_batch=int(rng.choice([1, 2])), f_live=1e-2,
                       n_networks=0, n_eff=int(rng.choice([30, 60])), n_shell=1, n_like_new_bound=None, enlarge_per_dim=2.0,
                       n_points_min=None, filepath=True, discard_exploration=bool(i % 4 == 1))
        allow_fault = history_kind == 'mixed' and pool in ('none', 's2')
        hist = drive.gen_history(rng, cfg, kind='mixed' if allow_fault else 'plain')
        if empty_shells:
            nb = cfg['n_batch']
            hist = [op for op in hist if op[0] != 'fault']
            hist += [['finish'], ['resume'], ['run_more', 3 * nb], ['toggle'], ['run_more', 3 * nb], ['resume'],
                     ['run_more', 2 * nb], ['toggle']]
        case = {'i': i, 'seed': seed, 'prob': pspec, 'cfg': cfg, 'hist': hist}
        if empty_shells:
            case['n_like_cap'] = 900        # hundreds of one- or two-point batches are enough
        cases.append(case)
    return cases


def run(spec, monitors, budget=4_000_000, code_raise_is_violation=None):
    """Drive the case. Returns (status, info). A raise of the code under test is reported through
    `code_raise_is_violation(exc, driver)` -> violation dict or None (=> skipped, out of domain)."""
    with env.Scratch('nmon-s') as scratch:
        drv = drive.Driver(spec, monitors, scratch, budget=budget, n_like_cap=spec.get('n_like_cap'))
        try:
            st = drv.run_history(spec['hist'])
        except Exception as e:
            frames = traceback.extract_tb(e.__traceback__)
            in_repo = any(f.filename.startswith(env.REPO + '/') for f in frames)
            if not in_repo or frames[-1].filename.startswith(env.VERIF + '/'):
                raise          # harness error: never a verdict (worker reports status 'error')
            desc = drive.describe_exc(e)
            v = code_raise_is_violation(e, drv) if code_raise_is_violation else None
            tb = traceback.format_exc()[-1800:]
            return ('violation' if v else 'skipped'), dict(reason='raise: ' + desc, violation=v, traceback=tb, driver=drv)
        if st != 'ok':
            return 'skipped', dict(reason=st, driver=drv)
        return 'ok', dict(driver=drv)


def case_key(spec):
    p, c = spec['prob'], spec['cfg']
    return '%s/d%d/%s/%s/%s|nl%d nb%d nn%d pool=%s per=%s file=%s|seed%d-%d' % (
        p['family'], p['d'], p['prior'], p['blobs'], 'vec' if p['vectorized'] else 'scalar',
        c['n_live'], c['n_batch'], c['n_networks'], c['pool'], c['periodic'], c['filepath'], spec['seed'], spec['i'])
