"""Parallel case runner: one subprocess per chunk, subprocess timeout as watchdog."""
import json
import subprocess
import threading
import time
from concurrent.futures import ThreadPoolExecutor

from . import env


def _run_chunk(prop, items, timeout):
    cmd = [env.PY, '-m', 'nmon.worker', prop]
    t0 = time.time()
    try:
        p = subprocess.run(cmd, input=json.dumps(items), capture_output=True, text=True,
                           timeout=timeout, env=env.child_env(), cwd=env.VERIF)
        stdout, stderr, rc, timed_out = p.stdout, p.stderr, p.returncode, False
    except subprocess.TimeoutExpired as e:
        stdout = e.stdout.decode() if isinstance(e.stdout, bytes) else (e.stdout or '')
        stderr = e.stderr.decode() if isinstance(e.stderr, bytes) else (e.stderr or '')
        rc, timed_out = None, True
    got = {}
    fatal = None
    for line in stdout.splitlines():
        line = line.strip()
        if not line.startswith('{'):
            continue
        try:
            r = json.loads(line)
        except ValueError:
            continue
        if 'fatal' in r:
            fatal = r['fatal']
            continue
        if 'i' in r:
            got[r['i']] = r
    out = []
    for idx, spec in items:
        if idx in got:
            out.append(got[idx])
        else:
            out.append({'i': idx, 'status': 'lost',
                        'reason': fatal or ('watchdog' if timed_out else 'worker died rc=%s' % rc),
                        'stderr': (stderr or '')[-1500:], 'wall_s': round(time.time() - t0, 1)})
    return out


def run_cases(prop, specs, chunk=4, timeout=900, jobs=None, progress=True):
    """Run every spec; returns results in spec order."""
    jobs = jobs or env.JOBS
    items = list(enumerate(specs))
    chunks = [items[i:i + chunk] for i in range(0, len(items), chunk)]
    results = [None] * len(specs)
    done = [0]
    lock = threading.Lock()

    def work(ch):
        rs = _run_chunk(prop, ch, timeout)
        with lock:
            for r in rs:
                results[r['i']] = r
            done[0] += len(rs)
        return None

    with ThreadPoolExecutor(max_workers=jobs) as ex:
        list(ex.map(work, chunks))
    return results
