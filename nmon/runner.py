"""Parallel case runner: one subprocess per chunk, subprocess timeout as watchdog."""
import json
import os
import shutil
import signal
import subprocess
import tempfile
import threading
import time
from concurrent.futures import ThreadPoolExecutor

from . import env


def _run_chunk(prop, items, timeout):
    cmd = [env.PY, '-m', 'nmon.worker', prop]
    t0 = time.time()
    # every scratch file of the chunk (also of grandchildren) lives under one directory that is removed here, so a
    # watchdog kill cannot leave anything behind in /tmp
    scratch = tempfile.mkdtemp(prefix='nmon-chunk-')
    cenv = env.child_env()
    cenv.update(TMPDIR=scratch, NMON_TMP=scratch)
    p = subprocess.Popen(cmd, stdin=subprocess.PIPE, stdout=subprocess.PIPE, stderr=subprocess.PIPE, text=True,
                         env=cenv, cwd=env.VERIF, start_new_session=True)
    try:
        stdout, stderr = p.communicate(json.dumps(items), timeout=timeout)
        rc, timed_out = p.returncode, False
    except subprocess.TimeoutExpired:
        try:
            os.killpg(p.pid, signal.SIGKILL)       # the worker and everything it started (pools, strace children)
        except ProcessLookupError:
            pass
        stdout, stderr = p.communicate()
        rc, timed_out = None, True
    finally:
        try:
            os.killpg(p.pid, signal.SIGKILL)       # stragglers of a finished worker (e.g. orphaned pool processes)
        except (ProcessLookupError, PermissionError):
            pass
        shutil.rmtree(scratch, ignore_errors=True)
    got = {}
    fatal = None
    for line in stdout.splitlines():
        line = line.strip()
        if not line.startswith('{'):
            continue
        try:
            r = json.loads(line)
        except ValueError:
            continue
        if 'fatal' in r:
            fatal = r['fatal']
            continue
        if 'i' in r:
            got[r['i']] = r
    out = []
    for idx, spec in items:
        if idx in got:
            out.append(got[idx])
        else:
            out.append({'i': idx, 'status': 'lost',
                        'reason': fatal or ('watchdog' if timed_out else 'worker died rc=%s' % rc),
                        'stderr': (stderr or '')[-1500:], 'wall_s': round(time.time() - t0, 1)})
    return out


def run_cases(prop, specs, chunk=4, timeout=900, jobs=None, progress=True):
    """Run every spec; returns results in spec order."""
    jobs = jobs or env.JOBS
    items = list(enumerate(specs))
    chunks = [items[i:i + chunk] for i in range(0, len(items), chunk)]
    results = [None] * len(specs)
    done = [0]
    lock = threading.Lock()

    def work(ch):
        rs = _run_chunk(prop, ch, timeout)
        with lock:
            for r in rs:
                results[r['i']] = r
            done[0] += len(rs)
        return None

    with ThreadPoolExecutor(max_workers=jobs) as ex:
        list(ex.map(work, chunks))
    return results
