"""Case worker: `python -m nmon.worker Cnn` reads a JSON list of [index, spec] from stdin
and prints one JSON result line per case (flushed), so a watchdog kill loses only the
case in flight."""
import importlib
import json
import os
import sys
import time
import traceback
import warnings


def main():
    prop = sys.argv[1]
    from . import env
    try:
        env.use_repo()
    except Exception as e:  # wrong root: everything inconclusive
        print(json.dumps({'fatal': str(e)}), flush=True)
        return 3
    warnings.simplefilter('ignore')
    mod = importlib.import_module('nmon.oracles.' + prop.lower())
    items = json.load(sys.stdin)
    out = os.fdopen(os.dup(1), 'w')
    # anything the code under test prints must not corrupt the result stream
    devnull = os.open(os.devnull, os.O_WRONLY)
    os.dup2(devnull, 1)
    sys.stdout = open(os.devnull, 'w')
    for idx, spec in items:
        t0 = time.time()
        try:
            res = mod.run_case(spec)
        except BaseException as e:  # harness error, never a verdict
            if isinstance(e, KeyboardInterrupt):
                raise
            res = {'status': 'error', 'error': repr(e),
                   'traceback': traceback.format_exc()[-4000:]}
        res['i'] = idx
        res['wall_s'] = round(time.time() - t0, 3)
        out.write(json.dumps(res, default=_default) + '\n')
        out.flush()
    return 0


def _default(o):
    import numpy as np
    if isinstance(o, (np.integer,)):
        return int(o)
    if isinstance(o, (np.floating,)):
        return float(o)
    if isinstance(o, (np.bool_,)):
        return bool(o)
    if isinstance(o, np.ndarray):
        return o.tolist()
    if isinstance(o, bytes):
        return o.hex()
    return repr(o)


if __name__ == '__main__':
    sys.exit(main())
