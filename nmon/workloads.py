"""Likelihood families, priors, blob kinds, sampler configurations and histories.

A `Problem` is built from a JSON-serialisable spec, is picklable (pool workers) and offers the
user-facing callables the Sampler needs (prior, likelihood) plus the reference functions the
oracles need (log-likelihood and blob of a unit-cube point, analytic evidence where known).
All likelihoods are written coordinate by coordinate with elementwise numpy operations, so that
scalar and vectorised evaluation perform the same floating-point operations.
"""
import numpy as np
from scipy.special import ndtr

FAMILIES = ['gauss', 'corr', 'mixture', 'funnel', 'plateau', 'staircase', 'ring', 'periodic',
            'constant', 'islands']
PRIORS = ['func', 'func_inplace', 'func_dict', 'Prior_dict', 'Prior_array']
BLOBS = ['none', 'float', 'int', 'multi', 'struct', 'f32pair', 'array', 'array32']
NN_KW = {'hidden_layer_sizes': (16, 8)}
LOG2PI = float(np.log(2 * np.pi))


class BudgetExceeded(Exception):
    pass


def blob_dtype_arg(kind):
    """Value passed as Sampler(blobs_dtype=...) for a blob kind (None = inferred)."""
    return {'struct': [('a', 'S8'), ('b', 'i2')], 'f32pair': np.float32, 'array32': np.float32}.get(kind)


class Problem:
    def __init__(self, spec):
        self.spec = spec
        self.family = spec['family']
        self.d = int(spec['d'])
        self.par = spec.get('par', {})
        self.prior_kind = spec.get('prior', 'func')
        self.blob_kind = spec.get('blobs', 'none')
        self.vectorized = bool(spec.get('vectorized', False))
        self.lo = np.array(spec.get('lo', [0.0] * self.d), dtype=float)
        self.hi = np.array(spec.get('hi', [1.0] * self.d), dtype=float)
        self.keys = ['k%d' % k for k in range(self.d)]
        self.pass_dict = self.prior_kind in ('func_dict', 'Prior_dict')
        self.n_calls = 0          # rows evaluated in THIS process
        self.call_log = None      # optional list of bytes of the unit points, see unit_log()
        self.fail_at = None       # injected fault: raise when n_calls reaches this number

    # ------------------------------------------------------------------ prior
    def prior_arg(self):
        """The object handed to Sampler(prior=...)."""
        if self.prior_kind.startswith('Prior'):
            from nautilus import Prior
            p = Prior()
            for k in range(self.d):
                if k == 1:
                    p.add_parameter('fx', dist=1.25)          # fixed before free
                p.add_parameter(self.keys[k], dist=(float(self.lo[k]), float(self.hi[k])))
                if k == 0:
                    p.add_parameter('lk', dist=self.keys[0])  # link
            p.add_parameter('lk2', dist='lk')                 # chain
            return p
        return _PriorFunc(self)

    def to_phys(self, u):
        u = np.asarray(u, dtype=float)
        if self.prior_kind == 'func_inplace':
            x = np.array(u, dtype=float, copy=True)
            x *= (self.hi - self.lo)
            x += self.lo
            return x
        return self.lo + (self.hi - self.lo) * u

    # ------------------------------------------------------------- likelihood
    def _coords(self, arg):
        if isinstance(arg, dict):
            c = [arg[k] for k in self.keys]
            extra = (arg['fx'] - 1.25) + (arg['lk'] - arg[self.keys[0]]) + (arg['lk2'] - arg[self.keys[0]]) \
                if 'fx' in arg else 0.0
        else:
            arg = np.asarray(arg)
            c = [arg[..., k] for k in range(self.d)]
            extra = 0.0
        return c, extra

    def logl_coords(self, c):
        f, p, d = self.family, self.par, self.d
        if self.spec.get('renorm'):
            # the family is defined on the unit cube but the prior maps to the box [lo, hi]: undo the affine map
            c = [(c[k] - float(self.lo[k])) / float(self.hi[k] - self.lo[k]) for k in range(d)]
        if f in ('gauss', 'corr'):
            mu, sig = p['mu'], p['sig']
            if f == 'corr':
                y0 = (c[0] - mu[0]) / sig[0]
                y1 = ((c[1] - mu[1]) / sig[1] - p['rho'] * y0) / p['q']
                s = -0.5 * (y0 * y0 + y1 * y1)
                start = 2
            else:
                s = 0.0 * c[0]
                start = 0
            for k in range(start, d):
                z = (c[k] - mu[k]) / sig[k]
                s = s - 0.5 * (z * z)
            return s
        if f == 'mixture':
            out = None
            for mu, sig in zip(p['mus'], p['sigs']):
                s = 0.0 * c[0]
                for k in range(d):
                    z = (c[k] - mu[k]) / sig[k]
                    s = s - 0.5 * (z * z)
                out = s if out is None else np.logaddexp(out, s)
            return out - float(np.log(len(p['mus'])))
        if f == 'funnel':
            a, s0 = p['a'], p['s0']
            z0 = (c[0] - 0.5) / s0
            s = -0.5 * (z0 * z0) - float(np.log(s0)) - 0.5 * LOG2PI
            for k in range(1, d):
                log_scale = a * (c[0] - 0.5) - float(np.log(100.0))
                z = (c[k] - 0.5) / np.exp(log_scale)
                s = s - 0.5 * (z * z) - log_scale - 0.5 * LOG2PI
            return s
        if f == 'plateau':
            t = p['t']
            with np.errstate(divide='ignore', invalid='ignore'):
                return np.where(c[0] < t, -np.inf, np.log(np.maximum(c[0] - t, 0.0))) + 0.0 * c[1]
        if f == 'staircase':
            with np.errstate(divide='ignore'):
                return np.ceil(-np.log10(1 - c[0])) + 0.0 * c[1]
        if f == 'ring':
            r2 = 0.0 * c[0]
            for k in range(d):
                r2 = r2 + (c[k] - 0.5) * (c[k] - 0.5)
            z = (np.sqrt(r2) - p['r0']) / p['w']
            return -0.5 * (z * z)
        if f == 'periodic':
            mu, sig, per = p['mu'], p['sig'], p['periodic']
            s = 0.0 * c[0]
            for k in range(d):
                dx = np.abs(c[k] - mu[k])
                if k in per:
                    dx = np.minimum(dx, 1 - dx)
                z = dx / sig[k]
                s = s - 0.5 * (z * z)
            return s
        if f == 'constant':
            return 0.0 * c[0] + p.get('value', 0.0)
        if f == 'islands':
            s = 0.0 * c[0]
            for k in range(d):
                z = (c[k] - 0.5) / 0.2
                s = s - 0.5 * (z * z)
            inside = (np.abs(c[0] - 0.3) < 0.12) | (np.abs(c[0] - 0.8) < 0.06)
            return np.where(inside, s, -np.inf)
        raise ValueError(f)

    def blobs_coords(self, c):
        """Tuple of blob values (scalars or arrays) for coordinates c."""
        b = self.blob_kind
        if b == 'none':
            return ()
        if b == 'float':
            return (c[0] + 2.0 * c[1],)
        if b == 'int':
            return (np.floor(37.0 * c[0]).astype(np.int64),)
        if b == 'multi':
            return (np.asarray(c[0]).astype(np.float32), np.floor(37.0 * c[1]).astype(np.int64))
        if b == 'struct':
            if np.ndim(c[0]) == 0:
                tag = ('%08.4f' % float(c[0])).encode()[:8]
            else:
                tag = np.array([('%08.4f' % float(v)).encode()[:8] for v in c[0]], dtype='S8')
            return (tag, np.floor(100.0 * c[1]).astype(np.int16))
        if b == 'f32pair':
            return (c[0], c[1])
        if b in ('array', 'array32'):
            return (np.stack([c[0], c[1], c[0] * c[1]], axis=-1),)
        raise ValueError(b)

    def _sidelog(self, x0):
        """Schedule perturbation + completion log for pool runs (scalar mode only): sleep a point-dependent
        pseudo-random time, then append (monotonic time, pid, x0) to a side file shared by all workers."""
        import os
        import time
        h = int.from_bytes(np.float64(x0).tobytes()[:3], 'little')
        time.sleep((h % 7) * 0.0004)
        fd = os.open(self.spec['sidelog'], os.O_WRONLY | os.O_APPEND | os.O_CREAT, 0o644)
        try:
            os.write(fd, ('%d %d %s\n' % (time.monotonic_ns(), os.getpid(), float(x0).hex())).encode())
        finally:
            os.close(fd)

    def __call__(self, arg):
        c, extra = self._coords(arg)
        n = 1 if np.ndim(c[0]) == 0 else len(c[0])
        self.n_calls += n
        if self.spec.get('sidelog') and n == 1 and np.ndim(c[0]) == 0:
            self._sidelog(c[0])
        if self.fail_at is not None and self.n_calls >= self.fail_at:
            self.fail_at = None
            raise InjectedFault('likelihood fault injected at evaluation %d' % self.n_calls)
        ll = self.logl_coords(c) + extra
        if np.ndim(ll) == 0:
            ll = float(ll)
        blobs = self.blobs_coords(c)
        if blobs:
            return (ll,) + tuple(blobs)
        return ll

    # ------------------------------------------------------- reference values
    def ref_logl_phys(self, x):
        """Reference log-likelihood of physical points (array (n,d)) in THIS evaluation style."""
        x = np.asarray(x, dtype=float)
        if self.vectorized:
            out = self.logl_coords([x[..., k] for k in range(self.d)])
            return np.asarray(out, dtype=float) + 0.0
        return np.array([float(self.logl_coords([row[k] for k in range(self.d)])) for row in x])

    def ref_blobs_phys(self, x, dtype):
        """Reference blob array for physical points, built the way the sampler builds it."""
        x = np.asarray(x, dtype=float)
        if self.vectorized:
            t = self.blobs_coords([x[..., k] for k in range(self.d)])
            rows = list(zip(*t))
        else:
            rows = [self.blobs_coords([row[k] for k in range(self.d)]) for row in x]
        arr = np.array(rows, dtype=dtype)
        return arr.reshape([len(rows)] + [s for s in arr.shape[1:] if s != 1])

    def analytic_log_z(self):
        """log of the integral of L over the unit cube under the affine prior, where known."""
        f, p = self.family, self.par
        lo, hi = self.lo, self.hi
        if f == 'gauss':
            mu, sig = np.array(p['mu']), np.array(p['sig'])
            z = sig * np.sqrt(2 * np.pi) * (ndtr((hi - mu) / sig) - ndtr((lo - mu) / sig)) / (hi - lo)
            return float(np.sum(np.log(z)))
        if f == 'corr':       # truncation negligible by construction (>= 7 sigma margins)
            mu, sig = np.array(p['mu']), np.array(p['sig'])
            return float(np.sum(np.log(sig * np.sqrt(2 * np.pi) / (hi - lo))) + np.log(p['q']))
        if f == 'mixture':
            tot = 0.0
            for mu, sig in zip(p['mus'], p['sigs']):
                mu, sig = np.array(mu), np.array(sig)
                tot += np.prod(sig * np.sqrt(2 * np.pi) * (ndtr((hi - mu) / sig) - ndtr((lo - mu) / sig)) / (hi - lo))
            return float(np.log(tot / len(p['mus'])))
        if f == 'plateau':
            return float(np.log(0.5 * (1 - p['t']) ** 2))
        if f == 'periodic':
            mu, sig = np.array(p['mu']), np.array(p['sig'])
            tot = 0.0
            for k in range(self.d):
                if k in p['periodic']:
                    tot += np.log(sig[k] * np.sqrt(2 * np.pi) * (ndtr(0.5 / sig[k]) - ndtr(-0.5 / sig[k])))
                else:
                    tot += np.log(sig[k] * np.sqrt(2 * np.pi) * (ndtr((1 - mu[k]) / sig[k]) - ndtr((0 - mu[k]) / sig[k])))
            return float(tot)
        if f == 'constant':
            return float(p.get('value', 0.0))
        return None

    def analytic_moments(self):
        """(mean, var) per physical coordinate where known (untruncated Gaussians)."""
        if self.family == 'gauss':
            return np.array(self.par['mu']), np.array(self.par['sig']) ** 2
        if self.family == 'corr':
            return np.array(self.par['mu']), np.array(self.par['sig']) ** 2
        return None


class InjectedFault(Exception):
    pass


class _PriorFunc:
    """Function prior (picklable): affine map, optionally in place, optionally returning a dict."""

    def __init__(self, prob):
        self.lo, self.hi, self.kind, self.keys = prob.lo, prob.hi, prob.prior_kind, prob.keys

    def __call__(self, u):
        if self.kind == 'func_inplace':
            u *= (self.hi - self.lo)          # deliberately modifies the caller's array
            u += self.lo
            x = u
        else:
            x = self.lo + (self.hi - self.lo) * u
        if self.kind == 'func_dict':
            return {k: x[..., i] for i, k in enumerate(self.keys)}
        return x


# ---------------------------------------------------------------------- generators
def gen_problem(rng, family=None, d=None, prior=None, blobs=None, vectorized=None, easy=False):
    family = family or str(rng.choice(FAMILIES))
    if d is None:
        d = int(rng.integers(2, 5))
    if family == 'corr':
        d = max(d, 2)
    prior = prior or str(rng.choice(PRIORS))
    blobs = blobs if blobs is not None else str(rng.choice(BLOBS))
    vectorized = bool(rng.random() < 0.5) if vectorized is None else bool(vectorized)
    unit_only = family in ('funnel', 'plateau', 'staircase', 'ring', 'periodic', 'constant', 'islands')
    renorm = False
    if unit_only and prior in ('func_inplace', 'func', 'func_dict') and rng.random() < (1.0 if prior == 'func_inplace' else 0.3):
        # a non-trivial box also for families that live on the unit cube (the likelihood undoes the map), so that an
        # in-place prior really changes its argument
        lo = [float(v) for v in np.round(rng.uniform(-3, 1, d), 2)]
        hi = [float(l + w) for l, w in zip(lo, np.round(rng.uniform(0.5, 4, d), 2))]
        renorm = True
    elif unit_only or (rng.random() < 0.4 and prior != 'func_inplace'):
        lo, hi = [0.0] * d, [1.0] * d
    else:
        lo = [float(v) for v in np.round(rng.uniform(-3, 1, d), 2)]
        hi = [float(l + w) for l, w in zip(lo, np.round(rng.uniform(0.5, 4, d), 2))]
    lo_a, hi_a = np.array(lo), np.array(hi)
    w = hi_a - lo_a
    par = {}
    if family == 'gauss':
        par['mu'] = (lo_a + w * rng.uniform(0.3, 0.7, d)).tolist()
        par['sig'] = (w * rng.uniform(0.04 if easy else 0.02, 0.12, d)).tolist()
    elif family == 'corr':
        par['mu'] = (lo_a + w * rng.uniform(0.45, 0.55, d)).tolist()
        par['sig'] = (w * rng.uniform(0.03, 0.06, d)).tolist()
        par['rho'] = float(rng.uniform(-0.9, 0.9))
        par['q'] = float(np.sqrt(1 - par['rho'] ** 2))
    elif family == 'mixture':
        m = 2 if easy else int(rng.integers(2, 4))
        mus = []
        for j in range(m):
            mu = lo_a + w * rng.uniform(0.2, 0.8, d)
            mu[0] = lo_a[0] + w[0] * (0.2 + 0.6 * j / max(m - 1, 1))     # separated along axis 0
            mus.append(mu.tolist())
        par['mus'] = mus
        par['sigs'] = [(w * rng.uniform(0.02, 0.05, d)).tolist() for _ in range(m)]
    elif family == 'funnel':
        par['a'] = float(rng.choice([8.0, 12.0, 20.0]))
        par['s0'] = 0.1
    elif family == 'plateau':
        par['t'] = float(rng.choice([0.5, 0.8, 0.9]))
    elif family == 'ring':
        par['r0'] = float(rng.uniform(0.2, 0.35))
        par['w'] = float(rng.uniform(0.02, 0.05))
    elif family == 'periodic':
        n_per = int(rng.integers(1, d + 1))
        per = sorted(int(v) for v in rng.choice(d, n_per, replace=False))
        mu = rng.uniform(0.3, 0.7, d)
        for k in per:
            mu[k] = float(rng.choice([0.0, 0.02, 0.97, 0.5]))
        par.update(mu=mu.tolist(), sig=rng.uniform(0.03, 0.08, d).tolist(), periodic=per)
    elif family == 'constant':
        par['value'] = float(rng.choice([0.0, -3.5]))
    out = dict(family=family, d=d, par=par, prior=prior, blobs=blobs, vectorized=vectorized, lo=lo, hi=hi)
    if renorm:
        out['renorm'] = True
    return out


def gen_cfg(rng, prob_spec, small=True, networks=None, pool=None, n_batch=None, filepath=None):
    d = prob_spec['d']
    n_live = int(rng.choice([60, 100, 150, 250] if small else [300, 400, 500]))
    if n_batch is None:
        n_batch = int(rng.choice([1, 3, 16, 50, 100], p=[0.05, 0.1, 0.25, 0.35, 0.25]))
    if n_batch == 1:
        n_live = min(n_live, 40)
    elif n_batch == 3:
        n_live = min(n_live, 60)
    cfg = dict(
        n_live=n_live, n_batch=n_batch,
        n_update=[None, max(n_live // 3, 1), None][int(rng.integers(3))],
        n_like_new_bound=[None, 2 * n_live][int(rng.integers(2))],
        n_networks=int(rng.choice([0, 0, 1, 2], p=[0.35, 0.25, 0.3, 0.1])) if networks is None else int(networks),
        enlarge_per_dim=float(rng.choice([1.05, 1.1, 1.5])),
        split_threshold=float(rng.choice([100, 100, 1])),
        n_points_min=[None, d + 10, d + 25][int(rng.integers(3))],
        periodic=None, pool=pool if pool is not None else 'none',
        seed=int(rng.integers(2 ** 31)),
        filepath=bool(rng.random() < 0.5) if filepath is None else bool(filepath),
        f_live=float(rng.choice([0.01, 0.05, 0.2])),
        n_eff=int(rng.choice([200, 500, 1000])),
        n_shell=int(rng.choice([1, 1, 5, n_batch + 1])),
        discard_exploration=bool(rng.random() < 0.5))
    cfg['nn_activation'] = str(rng.choice(['relu', 'relu', 'tanh', 'logistic']))
    if prob_spec['family'] == 'periodic':
        per = prob_spec['par']['periodic']
        cfg['periodic'] = ([int(v) for v in rng.permutation(per)] if rng.random() < 0.5 else per) if rng.random() < 0.8 else None
    elif rng.random() < 0.15:
        cfg['periodic'] = [int(v) for v in rng.choice(d, int(rng.integers(1, d + 1)), replace=False)]
    if prob_spec['family'] in ('ring',) and cfg['n_networks'] == 0:
        cfg['n_points_min'] = d + 5          # see DESIGN C04: ring without networks needs small ellipsoids
    if prob_spec['family'] == 'constant':
        cfg['f_live'] = 0.2
    return cfg


def make_sampler(prob, cfg, filepath=None, resume=True, likelihood=None):
    from nautilus import Sampler
    pool = {'none': None, 'l2': (2, None), 's2': (None, 2), 'b2': 2, 'l4': (4, None), 'l3': (3, None)}[cfg.get('pool', 'none')]
    kw = dict(n_live=cfg['n_live'], n_update=cfg['n_update'], enlarge_per_dim=cfg['enlarge_per_dim'],
              n_points_min=cfg['n_points_min'], split_threshold=cfg['split_threshold'],
              periodic=np.array(cfg['periodic']) if cfg['periodic'] is not None else None,
              n_networks=cfg['n_networks'],
              neural_network_kwargs=dict(NN_KW, activation=cfg.get('nn_activation', 'relu')), n_batch=cfg['n_batch'],
              n_like_new_bound=cfg['n_like_new_bound'], vectorized=prob.vectorized, pool=pool,
              seed=cfg['seed'], blobs_dtype=blob_dtype_arg(prob.blob_kind), filepath=filepath, resume=resume)
    prior = prob.prior_arg()
    if prob.prior_kind.startswith('Prior'):
        kw['pass_dict'] = prob.pass_dict
    else:
        kw['n_dim'] = prob.d
        kw['pass_dict'] = prob.pass_dict
    return Sampler(prior, likelihood if likelihood is not None else prob, **kw)


def close_sampler(s):
    for p in {id(s.pool_l): s.pool_l, id(s.pool_s): s.pool_s}.values():
        if p is not None and hasattr(p.pool, 'terminate'):
            try:
                p.pool.terminate()
                p.pool.join()
            except Exception:
                pass


def run_kwargs(cfg, **over):
    kw = dict(f_live=cfg['f_live'], n_shell=cfg['n_shell'], n_eff=cfg['n_eff'],
              discard_exploration=cfg['discard_exploration'])
    kw.update(over)
    return kw


def verify_modes(prob_spec, rng, n=64):
    """Scalar and vectorised evaluation of the same spec must agree bit for bit (else the
    differential oracles that compare them are not applicable to this case)."""
    a = Problem(dict(prob_spec, vectorized=False))
    b = Problem(dict(prob_spec, vectorized=True))
    u = rng.random((n, prob_spec['d']))
    x = a.to_phys(u)
    la, lb = a.ref_logl_phys(x), b.ref_logl_phys(x)
    return bool(np.array_equal(la, lb))
