#!/bin/sh
# Run every registered check once (default: quick tier) and summarise. Usage: ./run_all.sh [quick|thorough] [ids...]
cd "$(dirname "$0")" || exit 2
tier=${1:-quick}; shift 2>/dev/null
ids=${*:-C01 C02 C03 C04 C05 C06 C07 C08 C09 C10 C11 C12 C13 C14 C15 C16}
rc=0
for id in $ids; do
  start=$(date +%s)
  out=$(./check "$id" --tier "$tier" 2>&1); r=$?
  echo "$id rc=$r $(( $(date +%s) - start ))s  $(echo "$out" | grep -E '^(HELD|VIOLATION|KNOWN|INCONCLUSIVE)' | head -3 | cut -c1-200)"
  [ $r -ne 0 ] && rc=1
done
exit $rc
