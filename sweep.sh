#!/bin/sh
# False-alarm hunt on the unchanged tree: thorough tier at seed 0, then quick tier at several seeds (no evidence written).
cd "$(dirname "$0")" || exit 2
ids=${IDS:-C16 C15 C13 C09 C07 C08 C14 C12 C10 C01 C02 C03 C06 C04 C11 C05}
for id in $ids; do
  start=$(date +%s)
  out=$(VERIF_SEED=0 ./check "$id" --tier thorough --no-evidence 2>&1); r=$?
  echo "thorough seed=0 $id rc=$r $(( $(date +%s) - start ))s  $(echo "$out" | grep -E '^(HELD|VIOLATION|KNOWN|INCONCLUSIVE)' | head -3 | cut -c1-260)"
done
for seed in ${SEEDS:-1 2 3}; do
  for id in $ids; do
    start=$(date +%s)
    out=$(VERIF_SEED=$seed ./check "$id" --tier quick --no-evidence 2>&1); r=$?
    echo "quick seed=$seed $id rc=$r $(( $(date +%s) - start ))s  $(echo "$out" | grep -E '^(HELD|VIOLATION|KNOWN|INCONCLUSIVE)' | head -3 | cut -c1-260)"
  done
done
