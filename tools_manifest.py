#!/usr/bin/env python3
"""Regenerate MANIFEST.json from the table below (keeps it schema-valid at all times)."""
import json
import os

HERE = os.path.dirname(os.path.abspath(__file__))
PROPS = [json.loads(l)['id'] for l in open(os.path.join(HERE, 'properties.jsonl'))]

# id -> (category, technique, level text, level note, design ref)
CHECKS = {}
NOT_BUILT = 'check not built yet (framework under construction, see DESIGN.md section 5)'


def add(pid, cat, technique, text, note, ref):
    CHECKS[pid] = dict(cat=cat, technique=technique, text=text, note=note, ref=ref)


add('C16', 'exploration', 'runtime post-condition monitor on the real PhaseShift with boundary-directed inputs',
    'Post-conditions (range, non-periodic untouched, round trip, gap placement) are asserted on the real '
    'PhaseShift.compute/transform for thousands of centres, each probed at the floating-point neighbours of '
    'its wrap positions, of 0 and of 1; held = no observed input violated them. The function is a few lines of '
    'arithmetic whose only hazards are floating-point edge cases, which directed inputs reach deterministically.',
    'numpy float64 semantics; inputs are 2-D arrays in [0,1)^d; tolerances 1e-12', 'DESIGN.md#C16')

add('C15', 'exploration', 'lock-step reference interpreter on the real Prior over an exhaustive enumeration of declaration sequences',
    'Every declaration sequence up to length 3 (quick) / 5 (thorough) over a 15-letter alphabet of valid and '
    'malformed declarations is executed on the real Prior next to a reference interpreter; after each '
    'declaration the key/dist lists are compared (rejections must be ValueError/TypeError and leave no trace), '
    'at the end dimensionality and both transforms are checked for (d,) and (n,d) inputs. Exhaustive over the '
    'alphabet to the stated length, sampled over unit-cube inputs.',
    'scipy.stats ppf/isf as the inverse CDF reference; alphabet and length bound define the reach', 'DESIGN.md#C15')

add('C13', 'exploration', 'history + reference model checked after every operation, exhaustive prefix tree of split/trim/sample sequences on the real Union',
    'For each generated point set all operation sequences up to length 3 (quick) / 5 (thorough) are executed on '
    'deep copies of the real Union; after every operation record lengths, volumes, may-split flags, point-set '
    'partition/conservation, minimum points, volume monotonicity, refused-op immutability and absence of '
    'exceptions are checked against the reference list of point sets.',
    'exhaustive in operation order per point set, sampled over point sets; GaussianMixture behaviour as installed',
    'DESIGN.md#C13')


def main():
    checks = []
    for pid in PROPS:
        if pid not in CHECKS:
            continue
        c = CHECKS[pid]
        checks.append({
            'property_id': pid,
            'quick_cmd': './check %s --tier quick' % pid,
            'thorough_cmd': './check %s --tier thorough' % pid,
            'evidence_file': 'evidence/%s.json' % pid,
            'replay_cmd_template': './check %s --replay {path}' % pid,
            'engine': 'nmon',
            'level_claimed': {'category': c['cat'], 'text': c['text'], 'design_ref': c['ref']},
            'level_note': c['note'],
            'technique': c['technique'],
        })
    m = {
        'version': 1,
        'setup_cmd': 'true',
        'hooks': {
            'guard': 'NAUTILUS_VERIF',
            'enable': 'no source hooks: every monitor attaches from the harness by wrapping attributes of the '
                      'real nautilus classes before objects are created; checks import the working tree of /repo '
                      '(override: NAUTILUS_VERIF_REPO) directly - pure Python, nothing to build',
            'baseline_off_cmd': 'cd /repo && /venv/bin/python -m pytest -ra -q -p no:cacheprovider --timeout=900 '
                                '--continue-on-collection-errors',
            'source_commits': [],
            'add_only': True,
        },
        'engines': [{'name': 'nmon', 'path': 'nmon/', 'serves_properties': sorted(CHECKS),
                     'kind_free_text': 'runtime monitoring harness: case generators, subprocess runner with '
                                       'watchdog, invariant hooks / reference-model oracles on the real classes, '
                                       'strace kill injection, ensemble statistics'}],
        'checks': checks,
        'notes': 'Runtime monitoring only (see DESIGN.md). Exit codes: 0 held / known findings only, 1 VIOLATION, '
                 '2 INCONCLUSIVE (deciding monitor not reached, cases lost).',
        'not_applicable': [{'property_id': p, 'reason': NOT_BUILT} for p in PROPS if p not in CHECKS],
    }
    with open(os.path.join(HERE, 'MANIFEST.json'), 'w') as f:
        json.dump(m, f, indent=1)
        f.write('\n')


if __name__ == '__main__':
    main()
