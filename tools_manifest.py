#!/usr/bin/env python3
"""Regenerate MANIFEST.json from the table below (keeps it schema-valid at all times)."""
import json
import os

HERE = os.path.dirname(os.path.abspath(__file__))
PROPS = [json.loads(l)['id'] for l in open(os.path.join(HERE, 'properties.jsonl'))]

# id -> (category, technique, level text, level note, design ref)
CHECKS = {}
NOT_BUILT = 'check not built yet (framework under construction, see DESIGN.md section 5)'


def add(pid, cat, technique, text, note, ref):
    CHECKS[pid] = dict(cat=cat, technique=technique, text=text, note=note, ref=ref)


add('C16', 'exploration', 'runtime post-condition monitor on the real PhaseShift with boundary-directed inputs',
    'Post-conditions (range, non-periodic untouched, round trip, gap placement) are asserted on the real '
    'PhaseShift.compute/transform for thousands of centres, each probed at the floating-point neighbours of '
    'its wrap positions, of 0 and of 1; held = no observed input violated them. The function is a few lines of '
    'arithmetic whose only hazards are floating-point edge cases, which directed inputs reach deterministically.',
    'numpy float64 semantics; inputs are 2-D arrays in [0,1)^d; tolerances 1e-12', 'DESIGN.md#C16')


def main():
    checks = []
    for pid in PROPS:
        if pid not in CHECKS:
            continue
        c = CHECKS[pid]
        checks.append({
            'property_id': pid,
            'quick_cmd': './check %s --tier quick' % pid,
            'thorough_cmd': './check %s --tier thorough' % pid,
            'evidence_file': 'evidence/%s.json' % pid,
            'replay_cmd_template': './check %s --replay {path}' % pid,
            'engine': 'nmon',
            'level_claimed': {'category': c['cat'], 'text': c['text'], 'design_ref': c['ref']},
            'level_note': c['note'],
            'technique': c['technique'],
        })
    m = {
        'version': 1,
        'setup_cmd': 'true',
        'hooks': {
            'guard': 'NAUTILUS_VERIF',
            'enable': 'no source hooks: every monitor attaches from the harness by wrapping attributes of the '
                      'real nautilus classes before objects are created; checks import the working tree of /repo '
                      '(override: NAUTILUS_VERIF_REPO) directly - pure Python, nothing to build',
            'baseline_off_cmd': 'cd /repo && /venv/bin/python -m pytest -ra -q -p no:cacheprovider --timeout=900 '
                                '--continue-on-collection-errors',
            'source_commits': [],
            'add_only': True,
        },
        'engines': [{'name': 'nmon', 'path': 'nmon/', 'serves_properties': sorted(CHECKS),
                     'kind_free_text': 'runtime monitoring harness: case generators, subprocess runner with '
                                       'watchdog, invariant hooks / reference-model oracles on the real classes, '
                                       'strace kill injection, ensemble statistics'}],
        'checks': checks,
        'notes': 'Runtime monitoring only (see DESIGN.md). Exit codes: 0 held / known findings only, 1 VIOLATION, '
                 '2 INCONCLUSIVE (deciding monitor not reached, cases lost).',
        'not_applicable': [{'property_id': p, 'reason': NOT_BUILT} for p in PROPS if p not in CHECKS],
    }
    with open(os.path.join(HERE, 'MANIFEST.json'), 'w') as f:
        json.dump(m, f, indent=1)
        f.write('\n')


if __name__ == '__main__':
    main()
