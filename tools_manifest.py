#!/usr/bin/env python3
"""Regenerate MANIFEST.json from the table below (keeps it schema-valid at all times)."""
import json
import os

HERE = os.path.dirname(os.path.abspath(__file__))
PROPS = [json.loads(l)['id'] for l in open(os.path.join(HERE, 'properties.jsonl'))]

# id -> (category, technique, level text, level note, design ref)
CHECKS = {}
NOT_BUILT = 'check not built yet (framework under construction, see DESIGN.md section 5)'


def add(pid, cat, technique, text, note, ref):
    CHECKS[pid] = dict(cat=cat, technique=technique, text=text, note=note, ref=ref)


add('C16', 'exploration', 'runtime post-condition monitor on the real PhaseShift with boundary-directed inputs',
    'Post-conditions (range, non-periodic untouched, round trip, gap placement) are asserted on the real '
    'PhaseShift.compute/transform for thousands of centres, each probed at the floating-point neighbours of '
    'its wrap positions, of 0 and of 1; held = no observed input violated them. The function is a few lines of '
    'arithmetic whose only hazards are floating-point edge cases, which directed inputs reach deterministically.',
    'numpy float64 semantics; inputs are 2-D arrays in [0,1)^d; tolerances 1e-12', 'DESIGN.md#C16')

add('C15', 'exploration', 'lock-step reference interpreter on the real Prior over an exhaustive enumeration of declaration sequences',
    'Every declaration sequence up to length 3 (quick) / 5 (thorough) over a 15-letter alphabet of valid and '
    'malformed declarations is executed on the real Prior next to a reference interpreter; after each '
    'declaration the key/dist lists are compared (rejections must be ValueError/TypeError and leave no trace), '
    'at the end (and, in a second execution of every sequence, after every declaration) dimensionality and both transforms '
    'are checked for (d,) and (n,d) inputs; fixed values rotate over Python and NumPy numeric types. Exhaustive over the '
    'alphabet to the stated length, sampled over unit-cube inputs.',
    'scipy.stats ppf/isf as the inverse CDF reference; alphabet and length bound define the reach', 'DESIGN.md#C15')

add('C13', 'exploration', 'history + reference model checked after every operation, exhaustive prefix tree of split/trim/sample sequences on the real Union',
    'For each generated point set all operation sequences up to length 3 (quick) / 5 (thorough) are executed on '
    'deep copies of the real Union; after every operation record lengths, volumes, may-split flags, point-set '
    'partition/conservation, minimum points, volume monotonicity, refused-op immutability and absence of '
    'exceptions are checked against the reference list of point sets; point sets include corner clusters, flat simplices and '
    'uniform balls at a scale where volumes are below the smallest double.',
    'exhaustive in operation order per point set, sampled over point sets; GaussianMixture behaviour as installed',
    'DESIGN.md#C13')

add('C01', 'exploration', 'invariant hook on the live Sampler (real contains() of the real bounds) at every bound insertion, batch, checkpoint write, run() return and resume',
    'The partition invariant (inside the cube, inside its own bound, outside every later bound, shell_association '
    'agrees; live transfer candidates inside the newest bound with the recorded provenance) is evaluated on the real '
    'state at every point where the property says the sampler can be observed, across generated hostile workloads '
    '(non-nested funnel, ring, mixtures, plateaus, periodic, n_batch=1, pools) and histories with slices, resumes and '
    'injected likelihood faults. Held = no observed state violated it.',
    'membership decided by the real contains(); reach limited to generated configurations/histories', 'DESIGN.md#C01')

add('C02', 'exploration', 'reference-estimator monitor compared with the accessors at every batch boundary; proposal counts observed at the bound.sample() boundary',
    'A reference estimator recomputes per-shell counts, volumes, mean likelihoods, Kish sizes, log_z, n_eff, eta and '
    'posterior weights from the stored arrays at every add_bound/add_samples/write/run-return/toggle/resume and '
    'compares at rel. 1e-10; the proposals the bound hands out are captured at its sample() boundary: per-call increase, '
    'a running total per shell kept by the monitor, and conservation (handed out = rejected by a later bound + used).',
    'bounds[i].log_v taken from the real bound (C08 calibrates it); tolerance 1e-10', 'DESIGN.md#C02')

add('C03', 'exploration', 'history + reference: every evaluated batch and every posterior row re-evaluated with the harness-owned pure likelihood; uniqueness and exactly-once evaluation log',
    'Across the cross product of evaluation modes, prior kinds, batch sizes (incl. 1), blob dtypes and pools, every '
    'batch returned by evaluate_likelihood and every row of posterior(return_blobs=True) (after transfers, toggles, '
    'resumes) is re-evaluated by the same pure function; stored unit points must be distinct and evaluated exactly once.',
    'same function, same input bytes (bit-exact in scalar mode, 1e-12 vectorised)', 'DESIGN.md#C03')

add('C07', 'exploration', 'post-condition monitor on the real bound classes (sample => contains and cube, compute/split => construction points enclosed, neural/nautilus => inside outer bound)',
    'Post-conditions checked on bounds of every class built from generated landscapes (d=1..8, clustered, elongated, '
    'curved, face/corner hugging, wrapped), with split/sample histories, periodic shifts and pool sampling; >= 10^4 '
    'sampled points per bound; histories include trim(); every fifth basic bound is built from 12 000-30 000 points.', 'enlargement >= 1.02; degenerate generated sets are skipped', 'DESIGN.md#C07')

add('C08', 'exploration', 'statistical monitor: z-test of reported volume and two-sample chi-square of the sample stream against an independent box-union reference filtered through contains()',
    'For unions with overlapping members and NautilusBounds (networks, periodic, pools, after an HDF5 round trip) '
    'the reported volume is z-tested (|z|<6.1) against the Monte-Carlo measure of {contains} and the sample stream is '
    'chi-square tested (p>1e-9) against uniform-over-contains over multiplicity x octant cells; ellipsoid log-volume '
    'is checked against the matrix contains() uses; for trimmed unions the volume is also tested right after trim().',
    'false-alarm probability <= ~4e-9 per bound; power stated in DESIGN (a missing 1/multiplicity correction at >= 1 % overlap is detected)',
    'DESIGN.md#C08')

add('C09', 'exploration', 'differential monitor: original bound is the reference model of its read-back copy, driven in lock-step under a cloned generator',
    'Bounds of every class and option set, in states reached by split/trim/sample histories, are written, read back '
    'and compared call by call (contains on probes, log_v, sample streams across refills); update() is compared with '
    'a fresh write() and read back again; unions with more than ten members, unsorted periodic index sets and bounds sampled '
    'through NautilusPool are included; read(rng=None) after write and after update must restore membership, volume and the saved '
    'sampling progress (counters, cached rows) of every part.', 'bit-exact equality; split() on a read-back union not part of the property',
    'DESIGN.md#C09')

add('C10', 'exploration', 'offline checker over the boundary event log (run / add_samples / evaluate_likelihood / likelihood / pool.map) with a virtual clock',
    'Every batch of every run() in generated histories (n_like_max from 0 upward, virtual-clock timeouts, n_shell, '
    'n_eff targets, n_batch incl. 1, likelihood pools, resumes) is checked: rows == n_batch == rows the likelihood '
    'really received == increase of n_like, one batch per step, rows in [0,1)^d, n_like == all rows ever evaluated '
    'across resumes, no batch started over budget or after the virtual timeout, run() return value recomputed from '
    'the stored samples; the batch size is compared with the CONFIGURED n_batch (also for pools whose size does not divide it).',
    'virtual time (one unit per clock reading); success predicate skipped within 1e-6 of the n_eff target', 'DESIGN.md#C10')

add('C12', 'exploration', 'snapshot/prefix monitor at every batch boundary + differential between the three ways of requesting the discard',
    'Along histories with toggles at arbitrary boundaries, slices and resumes: explored never reverts, bound list and '
    'geometry digests frozen after exploration, no empty shell, earlier snapshots are prefixes of later arrays, view ON '
    '= rows stored after exploration ended (recorded by the monitor itself) and each of them evaluated after exploration '
    'ended, any recurring (flag, stored state) yields bit-identical statistics and posterior(); '
    'three request paths (run(), setter, setter after resume) agree bit for bit at the same state and at the end.',
    'bit-exact comparison; geometry digest excludes proposal caches', 'DESIGN.md#C12')

add('C14', 'exploration', 'structural post-conditions on every equal-weight draw + Bernstein-bounded ensemble test of multiplicities over many draws',
    'On weight vectors from real runs (with zero-weight rows, discarded views, mid-exploration states) every draw is '
    'decoded into per-row multiplicities and checked (floor/floor+1, order, no repeats for boost<=1, log_l/blob '
    'alignment, uniform normalised weights, weighted posterior untouched); summed multiplicities over 200/1500 draws '
    'must stay within a 1e-9 Bernstein bound of D*r overall and in eight weight-quantile groups; rows whose summed expectation '
    'over all draws is < 1e-12 must never appear (1.7e8 such row-draws in quick); file-backed and resumed samplers included.',
    'rows identify their source because weighted rows are distinct (C03); false-alarm <= ~2e-8 per (run, boost)', 'DESIGN.md#C14')

add('C04', 'exploration', 'ensemble statistics over independent seeds with exact Student-t / chi-square thresholds for the actual ensemble size',
    'Ensembles of 16 (quick) / 96 (thorough) independent seeds per (problem with closed-form evidence, configuration) '
    'are tested for a systematic offset of log_z (resolution 0.5 %, 3 % with exploration kept), for calibration of '
    'the reported error 1/sqrt(n_eff), for posterior moment offsets, and - on all families incl. funnel/ring/periodic '
    '- for the shell volumes summing to one under a fixed-effort sampling schedule.',
    'false-alarm probability <= ~1e-8 per invocation if the true offset is below delta; power limited by ensemble size (quick ~6 %, thorough ~1.5 %)',
    'DESIGN.md#C04')

add('C05', 'exploration', 'differential monitor: uninterrupted seeded run vs the same run cut at EVERY batch boundary (in memory and through the checkpoint into new Sampler objects / fresh processes), SHA-256 of results + evaluation log',
    'For small runs every batch boundary k is visited: run(n_like_max=k*n_batch) slices, a new Sampler resumed from the '
    'checkpoint copy of every k (some in a fresh interpreter), random multi-stop histories with non-multiples and '
    'virtual-clock timeouts, and toggle histories resumed after every step must all end bit-identical to the '
    'reference; no unit point may be evaluated on both sides of a cut. Variants: a run started with resume=False over the '
    'finished checkpoint of an earlier run, a one-update-per-bound configuration (empty shells removed), and a deep '
    'configuration in which every bound refills its proposal cache after the last full write (also with a sampler pool), and a '
    'sixteen-mode landscape whose unions hold more than ten ellipsoids.',
    'exhaustive over batch boundaries per run, sampled over configurations; relies on determinism (C11)', 'DESIGN.md#C05')

add('C06', 'fault_enumeration', 'syscall-level fault enumeration on the real process: strace census of every call on the checkpoint path + SIGKILL injection at each, leftover file compared with completed states, continuation under invariant hooks',
    'Every state-changing system call a checkpointed run issues on the checkpoint file or its temporary is a crash '
    'point (thorough: all ~900-1500 per configuration, three configurations; quick: stratified 64). After SIGKILL at that '
    'call the leftover file must be loadable and logically equal to the last completed or the in-progress state, and '
    'a new process must finish the run from it (in the directory the kill left behind, leftover temporary included) with '
    'the C01/C02 hooks silent. Checkpoint paths: plain, a relative symbolic link into another directory, a not yet existing '
    'nested directory.',
    'process death only (page cache survives); strace kills on syscall entry; census and kill runs are the same deterministic script', 'DESIGN.md#C06')

add('C11', 'exploration', 'pairwise differential monitor (SHA-256 of results) between a base run and variants that must be invisible; pool workers perturbed to complete out of order',
    'A base run is compared bit for bit with: the same again, vectorised likelihood, likelihood pools of 1/2/4 workers '
    'whose workers sleep point-dependent times (completion order logged; permuted batches counted), verbose output, '
    'a checkpoint file, a run observed between batches by random read-only accessor calls (also in a one-update-per-bound '
    'configuration with empty shells), and repeated sampler-pool runs; pools of 3 workers with batch sizes they do not divide; a '
    'variant that raises or exhausts a budget the base run did not need is a difference; sampler pool with a checkpoint file '
    'against sampler pool without; an invariant hook digests generator states, proposal caches, draw counters and stored arrays '
    'before and after every write()/write_shell_update(): a checkpoint write must not change them.',
    'threads pinned to 1; scalar/vectorised compared only where both forms are verified bit-identical', 'DESIGN.md#C11')


def main():
    checks = []
    for pid in PROPS:
        if pid not in CHECKS:
            continue
        c = CHECKS[pid]
        checks.append({
            'property_id': pid,
            'quick_cmd': './check %s --tier quick' % pid,
            'thorough_cmd': './check %s --tier thorough' % pid,
            'evidence_file': 'evidence/%s.json' % pid,
            'replay_cmd_template': './check %s --replay {path}' % pid,
            'engine': 'nmon',
            'level_claimed': {'category': c['cat'], 'text': c['text'], 'design_ref': c['ref']},
            'level_note': c['note'],
            'technique': c['technique'],
        })
    m = {
        'version': 1,
        'setup_cmd': 'true',
        'hooks': {
            'guard': 'NAUTILUS_VERIF',
            'enable': 'no source hooks: every monitor attaches from the harness by wrapping attributes of the '
                      'real nautilus classes before objects are created; checks import the working tree of /repo '
                      '(override: NAUTILUS_VERIF_REPO) directly - pure Python, nothing to build',
            'baseline_off_cmd': 'cd /repo && /venv/bin/python -m pytest -ra -q -p no:cacheprovider --timeout=900 '
                                '--continue-on-collection-errors',
            'source_commits': [],
            'add_only': True,
        },
        'engines': [{'name': 'nmon', 'path': 'nmon/', 'serves_properties': sorted(CHECKS),
                     'kind_free_text': 'runtime monitoring harness: case generators, subprocess runner with '
                                       'watchdog, invariant hooks / reference-model oracles on the real classes, '
                                       'strace kill injection, ensemble statistics'}],
        'checks': checks,
        'notes': 'Runtime monitoring only (see DESIGN.md). Exit codes: 0 held / known findings only, 1 VIOLATION, '
                 '2 INCONCLUSIVE (deciding monitor not reached, cases lost).',
        'not_applicable': [{'property_id': p, 'reason': NOT_BUILT} for p in PROPS if p not in CHECKS],
    }
    with open(os.path.join(HERE, 'MANIFEST.json'), 'w') as f:
        json.dump(m, f, indent=1)
        f.write('\n')


if __name__ == '__main__':
    main()
