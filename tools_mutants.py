#!/venv/bin/python
"""Self-test of the monitors: apply each catalogued breakage to a scratch copy of the repository,
point the quick check at it (NAUTILUS_VERIF_REPO) and require exit 1.

  ./tools_mutants.py [--only id-substring] [--props C01,C02] [--jobs 3] [--tier quick]
Scratch copies live under /tmp and are removed as soon as their check has run.
"""
import argparse
import importlib.util
import json
import os
import shutil
import subprocess
import sys
import tempfile
import time
from concurrent.futures import ThreadPoolExecutor

HERE = os.path.dirname(os.path.abspath(__file__))


def load_catalog():
    spec = importlib.util.spec_from_file_location('catalog', os.path.join(HERE, 'mutants', 'catalog.py'))
    mod = importlib.util.module_from_spec(spec)
    spec.loader.exec_module(mod)
    return mod.M


def run_one(mut, prop, tier, njobs, patch=None):
    root = tempfile.mkdtemp(prefix='nmon-mut-')
    try:
        shutil.copytree('/repo/nautilus', os.path.join(root, 'nautilus'),
                        ignore=shutil.ignore_patterns('__pycache__'))
        if patch:
            r = subprocess.run(['git', 'apply', '--unsafe-paths', '--directory', root, patch], capture_output=True, text=True, cwd='/')
            if r.returncode:
                return dict(id=mut['id'], prop=prop, outcome='patch-failed', detail=r.stderr[-300:])
        else:
            path = os.path.join(root, mut['file'])
            src = open(path).read()
            if src.count(mut['old']) != 1:
                return dict(id=mut['id'], prop=prop, outcome='stale-mutant', detail='old text occurs %d times' % src.count(mut['old']))
            open(path, 'w').write(src.replace(mut['old'], mut['new']))
        env = dict(os.environ, NAUTILUS_VERIF_REPO=root, NMON_JOBS=str(njobs))
        t0 = time.time()
        p = subprocess.run([os.path.join(HERE, 'check'), prop, '--tier', tier, '--no-evidence'],
                           capture_output=True, text=True, env=env, cwd=HERE)
        lines = [l for l in p.stdout.splitlines() if l.startswith(('VIOLATION', 'KNOWN', 'HELD', 'INCONCLUSIVE'))]
        return dict(id=mut['id'], prop=prop, outcome={0: 'MISSED', 1: 'caught', 2: 'inconclusive'}.get(p.returncode, 'rc%d' % p.returncode),
                    wall=round(time.time() - t0), detail=' | '.join(l[:230] for l in lines[:3]) or p.stderr[-300:])
    finally:
        shutil.rmtree(root, ignore_errors=True)


def main():
    ap = argparse.ArgumentParser()
    ap.add_argument('--only', default=None)
    ap.add_argument('--props', default=None)
    ap.add_argument('--jobs', type=int, default=3)
    ap.add_argument('--tier', default='quick')
    ap.add_argument('--out', default=None)
    a = ap.parse_args()
    muts = load_catalog()
    todo = []
    for mu in muts:
        if a.only and a.only not in mu['id']:
            continue
        for prop in mu['props']:
            if a.props and prop not in a.props.split(','):
                continue
            if not os.path.exists(os.path.join(HERE, 'nmon', 'oracles', prop.lower() + '.py')):
                continue
            todo.append((mu, prop))
    njobs = max(4, 16 // a.jobs)
    results = []
    with ThreadPoolExecutor(max_workers=a.jobs) as ex:
        for r in ex.map(lambda t: run_one(t[0], t[1], a.tier, njobs), todo):
            results.append(r)
            print('%-38s %-4s %-12s %4ss  %s' % (r['id'], r['prop'], r['outcome'], r.get('wall', '-'), r['detail'][:260]), flush=True)
    if a.out:
        json.dump(results, open(a.out, 'w'), indent=1)
    missed = [r for r in results if r['outcome'] != 'caught']
    print('\n%d mutant/check pairs, %d caught, %d not' % (len(results), len(results) - len(missed), len(missed)))
    return 1 if missed else 0


if __name__ == '__main__':
    sys.exit(main())
