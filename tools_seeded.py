#!/venv/bin/python
"""Confirm and evaluate the independently written breaking changes under seeded/<id>/.

For each: create a scratch git worktree of /repo under /tmp, apply patch.diff, (optionally) run the
repository's own test suite there, run demo.py on the changed tree (must exit 1) and on /repo (must
exit 0), run the listed checks against the changed tree (NAUTILUS_VERIF_REPO), write
seeded/<id>/confirm.json and remove the worktree.

  ./tools_seeded.py [ids...] [--suite] [--checks C01,C05] [--tier quick]
"""
import argparse
import json
import os
import shutil
import subprocess
import sys
import time

HERE = os.path.dirname(os.path.abspath(__file__))
PY = '/venv/bin/python'


def sh(cmd, cwd=None, env=None, timeout=3600):
    t0 = time.time()
    p = subprocess.run(cmd, cwd=cwd, env=env, capture_output=True, text=True, timeout=timeout)
    return p.returncode, p.stdout, p.stderr, round(time.time() - t0)


def main():
    ap = argparse.ArgumentParser()
    ap.add_argument('ids', nargs='*')
    ap.add_argument('--suite', action='store_true', help="also run the repository's own test suite on the changed tree")
    ap.add_argument('--checks', default=None)
    ap.add_argument('--tier', default='quick')
    ap.add_argument('--jobs', default='8')
    a = ap.parse_args()
    ids = a.ids or sorted(d for d in os.listdir(os.path.join(HERE, 'seeded')) if os.path.isdir(os.path.join(HERE, 'seeded', d)))
    rc_all = 0
    for sid in ids:
        d = os.path.join(HERE, 'seeded', sid)
        meta = json.load(open(os.path.join(d, 'meta.json')))
        wt = '/tmp/nmon-seeded-%s' % sid
        subprocess.run(['git', '-C', '/repo', 'worktree', 'remove', '--force', wt], capture_output=True)
        shutil.rmtree(wt, ignore_errors=True)
        out = {'id': sid, 'repo_head': subprocess.run(['git', '-C', '/repo', 'rev-parse', '--short', 'HEAD'],
                                                      capture_output=True, text=True).stdout.strip()}
        try:
            r = sh(['git', '-C', '/repo', 'worktree', 'add', '--detach', wt, 'HEAD'])
            r = sh(['git', '-C', wt, 'apply', os.path.join(d, 'patch.diff')])
            out['patch_applies'] = r[0] == 0
            if r[0] != 0:
                out['error'] = r[2][-500:]
                raise RuntimeError('patch does not apply')
            env = dict(os.environ, PYTHONDONTWRITEBYTECODE='1', OMP_NUM_THREADS='1', OPENBLAS_NUM_THREADS='1')
            r = sh([PY, os.path.join(d, 'demo.py'), wt], env=env)
            out['demo_on_changed_tree'] = {'exit': r[0], 'wall_s': r[3], 'tail': (r[1] + r[2])[-400:]}
            r = sh([PY, os.path.join(d, 'demo.py'), '/repo'], env=env)
            out['demo_on_repo'] = {'exit': r[0], 'wall_s': r[3], 'tail': (r[1] + r[2])[-300:]}
            if a.suite:
                r = sh([PY, '-m', 'pytest', '-q', '-p', 'no:cacheprovider', '--timeout=900', '-x'], cwd=wt, env=env, timeout=3000)
                out['suite_on_changed_tree'] = {'exit': r[0], 'wall_s': r[3], 'tail': r[1][-200:]}
            checks = (a.checks.split(',') if a.checks else meta.get('checks') or [meta['property']])
            out['checks'] = {}
            for c in checks:
                e2 = dict(os.environ, NAUTILUS_VERIF_REPO=wt, NMON_JOBS=a.jobs)
                r = sh([os.path.join(HERE, 'check'), c, '--tier', a.tier, '--no-evidence'], cwd=HERE, env=e2, timeout=7200)
                lines = [l[:300] for l in r[1].splitlines() if l.startswith(('VIOLATION', 'HELD', 'INCONCLUSIVE', 'KNOWN'))]
                out['checks'][c] = {'exit': r[0], 'wall_s': r[3], 'tier': a.tier, 'lines': lines[:3]}
        except Exception as e:
            out.setdefault('error', repr(e))
        finally:
            subprocess.run(['git', '-C', '/repo', 'worktree', 'remove', '--force', wt], capture_output=True)
            shutil.rmtree(wt, ignore_errors=True)
        prev = {}
        cp = os.path.join(d, 'confirm.json')
        if os.path.exists(cp):
            prev = json.load(open(cp))
        if 'suite_on_changed_tree' not in out and 'suite_on_changed_tree' in prev:
            out['suite_on_changed_tree'] = prev['suite_on_changed_tree']
        merged = dict(prev.get('checks', {}))
        merged.update(out.get('checks', {}))
        out['checks'] = merged
        json.dump(out, open(cp, 'w'), indent=1)
        ok = (out.get('demo_on_changed_tree', {}).get('exit') == 1 and out.get('demo_on_repo', {}).get('exit') == 0)
        caught = [c for c, v in out['checks'].items() if v['exit'] == 1]
        print('%s confirmed=%s suite=%s caught_by=%s missed_by=%s' % (
            sid, ok, out.get('suite_on_changed_tree', {}).get('exit'), caught,
            [c for c, v in out['checks'].items() if v['exit'] != 1]), flush=True)
        if not ok or not caught:
            rc_all = 1
    return rc_all


if __name__ == '__main__':
    sys.exit(main())
